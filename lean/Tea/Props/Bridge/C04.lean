import Tea.Gen.Facts
import Tea.Doc.Facts
/-
Bridge theorems of C04: the facts the go/ast extractor reads from /repo's CURRENT source
(`Tea.Gen`, regenerated on every run) equal the frozen expectation the models and theorems
of this property were written against (`Tea.Doc`). Written by checklib/mkbridges.py.
-/
namespace Tea.Props.Bridge.C04

theorem sends : Tea.Gen.fact_sends = Tea.Doc.fact_sends := rfl
theorem recvs : Tea.Gen.fact_recvs = Tea.Doc.fact_recvs := rfl
theorem closes : Tea.Gen.fact_closes = Tea.Doc.fact_closes := rfl
theorem makechans : Tea.Gen.fact_makechans = Tea.Doc.fact_makechans := rfl
theorem gostmts : Tea.Gen.fact_gostmts = Tea.Doc.fact_gostmts := rfl
theorem ctxchecks : Tea.Gen.fact_ctxchecks = Tea.Doc.fact_ctxchecks := rfl
theorem calls : Tea.Gen.fact_calls = Tea.Doc.fact_calls := rfl
theorem sendcalls : Tea.Gen.fact_sendcalls = Tea.Doc.fact_sendcalls := rfl
theorem el_head : Tea.Gen.fact_el_head = Tea.Doc.fact_el_head := rfl
theorem el_tail : Tea.Gen.fact_el_tail = Tea.Doc.fact_el_tail := rfl
theorem el_cases : Tea.Gen.fact_el_cases = Tea.Doc.fact_el_cases := rfl
theorem body_Program_Send : Tea.Gen.fact_body_Program_Send = Tea.Doc.fact_body_Program_Send := rfl
theorem body_Program_handleCommands : Tea.Gen.fact_body_Program_handleCommands = Tea.Doc.fact_body_Program_handleCommands := rfl
theorem order_Program_shutdown : Tea.Gen.fact_order_Program_shutdown = Tea.Doc.fact_order_Program_shutdown := rfl
theorem order_Program_Run : Tea.Gen.fact_order_Program_Run = Tea.Doc.fact_order_Program_Run := rfl
theorem order_Program_recoverFromPanic : Tea.Gen.fact_order_Program_recoverFromPanic = Tea.Doc.fact_order_Program_recoverFromPanic := rfl
theorem sig_Program_Run : Tea.Gen.fact_sig_Program_Run = Tea.Doc.fact_sig_Program_Run := rfl
theorem body_Program_readLoop : Tea.Gen.fact_body_Program_readLoop = Tea.Doc.fact_body_Program_readLoop := rfl
theorem body_Program_waitForReadLoop : Tea.Gen.fact_body_Program_waitForReadLoop = Tea.Doc.fact_body_Program_waitForReadLoop := rfl
theorem body_channelHandlers_shutdown : Tea.Gen.fact_body_channelHandlers_shutdown = Tea.Doc.fact_body_channelHandlers_shutdown := rfl
theorem body_Program_handleSignals : Tea.Gen.fact_body_Program_handleSignals = Tea.Doc.fact_body_Program_handleSignals := rfl
theorem body_Program_handleResize : Tea.Gen.fact_body_Program_handleResize = Tea.Doc.fact_body_Program_handleResize := rfl
theorem body_Program_listenForResize : Tea.Gen.fact_body_Program_listenForResize = Tea.Doc.fact_body_Program_listenForResize := rfl
theorem body_Program_checkResize : Tea.Gen.fact_body_Program_checkResize = Tea.Doc.fact_body_Program_checkResize := rfl
theorem body_Program_Kill : Tea.Gen.fact_body_Program_Kill = Tea.Doc.fact_body_Program_Kill := rfl
theorem body_Program_Quit : Tea.Gen.fact_body_Program_Quit = Tea.Doc.fact_body_Program_Quit := rfl
theorem el_case_QuitMsg : Tea.Gen.fact_el_case_QuitMsg = Tea.Doc.fact_el_case_QuitMsg := rfl
theorem el_case_InterruptMsg : Tea.Gen.fact_el_case_InterruptMsg = Tea.Doc.fact_el_case_InterruptMsg := rfl
theorem el_case_BatchMsg : Tea.Gen.fact_el_case_BatchMsg = Tea.Doc.fact_el_case_BatchMsg := rfl
theorem order_standardRenderer_stop : Tea.Gen.fact_order_standardRenderer_stop = Tea.Doc.fact_order_standardRenderer_stop := rfl
theorem order_standardRenderer_kill : Tea.Gen.fact_order_standardRenderer_kill = Tea.Doc.fact_order_standardRenderer_kill := rfl
theorem body_standardRenderer_listen : Tea.Gen.fact_body_standardRenderer_listen = Tea.Doc.fact_body_standardRenderer_listen := rfl
theorem body_standardRenderer_halt : Tea.Gen.fact_body_standardRenderer_halt = Tea.Doc.fact_body_standardRenderer_halt := rfl
theorem body_standardRenderer_start : Tea.Gen.fact_body_standardRenderer_start = Tea.Doc.fact_body_standardRenderer_start := rfl
theorem order_Program_ReleaseTerminal : Tea.Gen.fact_order_Program_ReleaseTerminal = Tea.Doc.fact_order_Program_ReleaseTerminal := rfl
theorem order_Program_RestoreTerminal : Tea.Gen.fact_order_Program_RestoreTerminal = Tea.Doc.fact_order_Program_RestoreTerminal := rfl
theorem order_Program_exec : Tea.Gen.fact_order_Program_exec = Tea.Doc.fact_order_Program_exec := rfl
theorem body_NewProgram : Tea.Gen.fact_body_NewProgram = Tea.Doc.fact_body_NewProgram := rfl
theorem body_WithContext : Tea.Gen.fact_body_WithContext = Tea.Doc.fact_body_WithContext := rfl
theorem body_WithOutput : Tea.Gen.fact_body_WithOutput = Tea.Doc.fact_body_WithOutput := rfl
theorem body_WithInput : Tea.Gen.fact_body_WithInput = Tea.Doc.fact_body_WithInput := rfl
theorem body_WithInputTTY : Tea.Gen.fact_body_WithInputTTY = Tea.Doc.fact_body_WithInputTTY := rfl
theorem body_WithoutCatchPanics : Tea.Gen.fact_body_WithoutCatchPanics = Tea.Doc.fact_body_WithoutCatchPanics := rfl
theorem body_WithoutRenderer : Tea.Gen.fact_body_WithoutRenderer = Tea.Doc.fact_body_WithoutRenderer := rfl
theorem body_WithEnvironment : Tea.Gen.fact_body_WithEnvironment = Tea.Doc.fact_body_WithEnvironment := rfl
theorem bodies_nilRenderer : Tea.Gen.fact_bodies_nilRenderer = Tea.Doc.fact_bodies_nilRenderer := rfl
theorem body_newInputReader : Tea.Gen.fact_body_newInputReader = Tea.Doc.fact_body_newInputReader := rfl
theorem body_readInputs : Tea.Gen.fact_body_readInputs = Tea.Doc.fact_body_readInputs := rfl
theorem body_openInputTTY : Tea.Gen.fact_body_openInputTTY = Tea.Doc.fact_body_openInputTTY := rfl
theorem body_Program_handlePanic : Tea.Gen.fact_body_Program_handlePanic = Tea.Doc.fact_body_Program_handlePanic := rfl
theorem body_channelHandlers_add : Tea.Gen.fact_body_channelHandlers_add = Tea.Doc.fact_body_channelHandlers_add := rfl
theorem body_Quit : Tea.Gen.fact_body_Quit = Tea.Doc.fact_body_Quit := rfl
theorem body_Interrupt : Tea.Gen.fact_body_Interrupt = Tea.Doc.fact_body_Interrupt := rfl
theorem body_WithoutSignalHandler : Tea.Gen.fact_body_WithoutSignalHandler = Tea.Doc.fact_body_WithoutSignalHandler := rfl
theorem body_Program_Start : Tea.Gen.fact_body_Program_Start = Tea.Doc.fact_body_Program_Start := rfl
theorem body_Program_StartReturningModel : Tea.Gen.fact_body_Program_StartReturningModel = Tea.Doc.fact_body_Program_StartReturningModel := rfl

end Tea.Props.Bridge.C04
