import Tea.Gen.Facts
import Tea.Doc.Facts
/-
Bridge theorems of C14: the facts the go/ast extractor reads from /repo's CURRENT source
(`Tea.Gen`, regenerated on every run) equal the frozen expectation the models and theorems
of this property were written against (`Tea.Doc`). Written by checklib/mkbridges.py.
-/
namespace Tea.Props.Bridge.C14

theorem body_Program_Println : Tea.Gen.fact_body_Program_Println = Tea.Doc.fact_body_Program_Println := rfl
theorem body_Program_Printf : Tea.Gen.fact_body_Program_Printf = Tea.Doc.fact_body_Program_Printf := rfl
theorem locks : Tea.Gen.fact_locks = Tea.Doc.fact_locks := rfl

end Tea.Props.Bridge.C14
