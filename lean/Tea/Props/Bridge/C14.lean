import Tea.Gen.Facts
import Tea.Doc.Facts
/-
Bridge theorems of C14: the facts the go/ast extractor reads from /repo's CURRENT source
(`Tea.Gen`, regenerated on every run) equal the frozen expectation the models and theorems
of this property were written against (`Tea.Doc`). Written by checklib/mkbridges.py.
-/
namespace Tea.Props.Bridge.C14

theorem body_Program_Println : Tea.Gen.fact_body_Program_Println = Tea.Doc.fact_body_Program_Println := rfl
theorem body_Program_Printf : Tea.Gen.fact_body_Program_Printf = Tea.Doc.fact_body_Program_Printf := rfl
theorem locks : Tea.Gen.fact_locks = Tea.Doc.fact_locks := rfl
theorem body_standardRenderer_render : Tea.Gen.fact_body_standardRenderer_render = Tea.Doc.fact_body_standardRenderer_render := rfl
theorem body_standardRenderer_flush : Tea.Gen.fact_body_standardRenderer_flush = Tea.Doc.fact_body_standardRenderer_flush := rfl
theorem body_standardRenderer_write : Tea.Gen.fact_body_standardRenderer_write = Tea.Doc.fact_body_standardRenderer_write := rfl
theorem body_standardRenderer_repaint : Tea.Gen.fact_body_standardRenderer_repaint = Tea.Doc.fact_body_standardRenderer_repaint := rfl
theorem body_standardRenderer_handleMessages : Tea.Gen.fact_body_standardRenderer_handleMessages = Tea.Doc.fact_body_standardRenderer_handleMessages := rfl
theorem body_standardRenderer_stop : Tea.Gen.fact_body_standardRenderer_stop = Tea.Doc.fact_body_standardRenderer_stop := rfl
theorem body_standardRenderer_kill : Tea.Gen.fact_body_standardRenderer_kill = Tea.Doc.fact_body_standardRenderer_kill := rfl
theorem body_standardRenderer_clearScreen : Tea.Gen.fact_body_standardRenderer_clearScreen = Tea.Doc.fact_body_standardRenderer_clearScreen := rfl
theorem body_standardRenderer_enterAltScreen : Tea.Gen.fact_body_standardRenderer_enterAltScreen = Tea.Doc.fact_body_standardRenderer_enterAltScreen := rfl
theorem body_standardRenderer_exitAltScreen : Tea.Gen.fact_body_standardRenderer_exitAltScreen = Tea.Doc.fact_body_standardRenderer_exitAltScreen := rfl
theorem body_Println : Tea.Gen.fact_body_Println = Tea.Doc.fact_body_Println := rfl
theorem body_Printf : Tea.Gen.fact_body_Printf = Tea.Doc.fact_body_Printf := rfl
theorem body_standardRenderer_execute : Tea.Gen.fact_body_standardRenderer_execute = Tea.Doc.fact_body_standardRenderer_execute := rfl

end Tea.Props.Bridge.C14
