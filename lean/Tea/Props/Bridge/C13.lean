import Tea.Gen.Facts
import Tea.Doc.Facts
/-
Bridge theorems of C13: the facts the go/ast extractor reads from /repo's CURRENT source
(`Tea.Gen`, regenerated on every run) equal the frozen expectation the models and theorems
of this property were written against (`Tea.Doc`). Written by checklib/mkbridges.py.
-/
namespace Tea.Props.Bridge.C13

theorem sends : Tea.Gen.fact_sends = Tea.Doc.fact_sends := rfl
theorem recvs : Tea.Gen.fact_recvs = Tea.Doc.fact_recvs := rfl
theorem closes : Tea.Gen.fact_closes = Tea.Doc.fact_closes := rfl
theorem makechans : Tea.Gen.fact_makechans = Tea.Doc.fact_makechans := rfl
theorem ctxchecks : Tea.Gen.fact_ctxchecks = Tea.Doc.fact_ctxchecks := rfl
theorem body_Program_Send : Tea.Gen.fact_body_Program_Send = Tea.Doc.fact_body_Program_Send := rfl
theorem body_Program_Quit : Tea.Gen.fact_body_Program_Quit = Tea.Doc.fact_body_Program_Quit := rfl
theorem body_Program_Kill : Tea.Gen.fact_body_Program_Kill = Tea.Doc.fact_body_Program_Kill := rfl
theorem body_Program_Wait : Tea.Gen.fact_body_Program_Wait = Tea.Doc.fact_body_Program_Wait := rfl
theorem body_Program_Println : Tea.Gen.fact_body_Program_Println = Tea.Doc.fact_body_Program_Println := rfl
theorem body_Program_Printf : Tea.Gen.fact_body_Program_Printf = Tea.Doc.fact_body_Program_Printf := rfl
theorem order_Program_shutdown : Tea.Gen.fact_order_Program_shutdown = Tea.Doc.fact_order_Program_shutdown := rfl
theorem order_Program_Run : Tea.Gen.fact_order_Program_Run = Tea.Doc.fact_order_Program_Run := rfl
theorem bodies_nilRenderer : Tea.Gen.fact_bodies_nilRenderer = Tea.Doc.fact_bodies_nilRenderer := rfl
theorem body_NewProgram : Tea.Gen.fact_body_NewProgram = Tea.Doc.fact_body_NewProgram := rfl
theorem body_Println : Tea.Gen.fact_body_Println = Tea.Doc.fact_body_Println := rfl
theorem body_Printf : Tea.Gen.fact_body_Printf = Tea.Doc.fact_body_Printf := rfl
theorem body_Quit : Tea.Gen.fact_body_Quit = Tea.Doc.fact_body_Quit := rfl

end Tea.Props.Bridge.C13
