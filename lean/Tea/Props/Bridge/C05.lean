import Tea.Gen.Facts
import Tea.Doc.Facts
/-
Bridge theorems of C05: the facts the go/ast extractor reads from /repo's CURRENT source
(`Tea.Gen`, regenerated on every run) equal the frozen expectation the models and theorems
of this property were written against (`Tea.Doc`). Written by checklib/mkbridges.py.
-/
namespace Tea.Props.Bridge.C05

theorem order_Program_shutdown : Tea.Gen.fact_order_Program_shutdown = Tea.Doc.fact_order_Program_shutdown := rfl
theorem order_Program_restoreTerminalState : Tea.Gen.fact_order_Program_restoreTerminalState = Tea.Doc.fact_order_Program_restoreTerminalState := rfl
theorem order_Program_Run : Tea.Gen.fact_order_Program_Run = Tea.Doc.fact_order_Program_Run := rfl
theorem order_Program_initTerminal : Tea.Gen.fact_order_Program_initTerminal = Tea.Doc.fact_order_Program_initTerminal := rfl
theorem order_Program_disableMouse : Tea.Gen.fact_order_Program_disableMouse = Tea.Doc.fact_order_Program_disableMouse := rfl
theorem order_Program_recoverFromPanic : Tea.Gen.fact_order_Program_recoverFromPanic = Tea.Doc.fact_order_Program_recoverFromPanic := rfl
theorem calls : Tea.Gen.fact_calls = Tea.Doc.fact_calls := rfl
theorem body_Program_initInput : Tea.Gen.fact_body_Program_initInput = Tea.Doc.fact_body_Program_initInput := rfl
theorem body_Program_restoreInput : Tea.Gen.fact_body_Program_restoreInput = Tea.Doc.fact_body_Program_restoreInput := rfl
theorem body_WithAltScreen : Tea.Gen.fact_body_WithAltScreen = Tea.Doc.fact_body_WithAltScreen := rfl
theorem body_WithoutBracketedPaste : Tea.Gen.fact_body_WithoutBracketedPaste = Tea.Doc.fact_body_WithoutBracketedPaste := rfl
theorem body_WithMouseCellMotion : Tea.Gen.fact_body_WithMouseCellMotion = Tea.Doc.fact_body_WithMouseCellMotion := rfl
theorem body_WithMouseAllMotion : Tea.Gen.fact_body_WithMouseAllMotion = Tea.Doc.fact_body_WithMouseAllMotion := rfl
theorem body_WithReportFocus : Tea.Gen.fact_body_WithReportFocus = Tea.Doc.fact_body_WithReportFocus := rfl
theorem body_startupOptions_has : Tea.Gen.fact_body_startupOptions_has = Tea.Doc.fact_body_startupOptions_has := rfl
theorem body_standardRenderer_altScreen : Tea.Gen.fact_body_standardRenderer_altScreen = Tea.Doc.fact_body_standardRenderer_altScreen := rfl
theorem body_standardRenderer_bracketedPasteActive : Tea.Gen.fact_body_standardRenderer_bracketedPasteActive = Tea.Doc.fact_body_standardRenderer_bracketedPasteActive := rfl
theorem body_standardRenderer_reportFocus : Tea.Gen.fact_body_standardRenderer_reportFocus = Tea.Doc.fact_body_standardRenderer_reportFocus := rfl
theorem body_Program_handlePanic : Tea.Gen.fact_body_Program_handlePanic = Tea.Doc.fact_body_Program_handlePanic := rfl
theorem body_openInputTTY : Tea.Gen.fact_body_openInputTTY = Tea.Doc.fact_body_openInputTTY := rfl
theorem body_NewProgram : Tea.Gen.fact_body_NewProgram = Tea.Doc.fact_body_NewProgram := rfl
theorem body_WithInputTTY : Tea.Gen.fact_body_WithInputTTY = Tea.Doc.fact_body_WithInputTTY := rfl
theorem body_WithInput : Tea.Gen.fact_body_WithInput = Tea.Doc.fact_body_WithInput := rfl
theorem body_WithOutput : Tea.Gen.fact_body_WithOutput = Tea.Doc.fact_body_WithOutput := rfl
theorem body_standardRenderer_execute : Tea.Gen.fact_body_standardRenderer_execute = Tea.Doc.fact_body_standardRenderer_execute := rfl

end Tea.Props.Bridge.C05
