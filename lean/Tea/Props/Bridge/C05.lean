import Tea.Gen.Facts
import Tea.Doc.Facts
/-
Bridge theorems of C05: the facts the go/ast extractor reads from /repo's CURRENT source
(`Tea.Gen`, regenerated on every run) equal the frozen expectation the models and theorems
of this property were written against (`Tea.Doc`). Written by checklib/mkbridges.py.
-/
namespace Tea.Props.Bridge.C05

theorem order_Program_shutdown : Tea.Gen.fact_order_Program_shutdown = Tea.Doc.fact_order_Program_shutdown := rfl
theorem order_Program_restoreTerminalState : Tea.Gen.fact_order_Program_restoreTerminalState = Tea.Doc.fact_order_Program_restoreTerminalState := rfl
theorem order_Program_Run : Tea.Gen.fact_order_Program_Run = Tea.Doc.fact_order_Program_Run := rfl
theorem order_Program_initTerminal : Tea.Gen.fact_order_Program_initTerminal = Tea.Doc.fact_order_Program_initTerminal := rfl
theorem order_Program_disableMouse : Tea.Gen.fact_order_Program_disableMouse = Tea.Doc.fact_order_Program_disableMouse := rfl
theorem order_Program_recoverFromPanic : Tea.Gen.fact_order_Program_recoverFromPanic = Tea.Doc.fact_order_Program_recoverFromPanic := rfl
theorem calls : Tea.Gen.fact_calls = Tea.Doc.fact_calls := rfl
theorem body_Program_initInput : Tea.Gen.fact_body_Program_initInput = Tea.Doc.fact_body_Program_initInput := rfl
theorem body_Program_restoreInput : Tea.Gen.fact_body_Program_restoreInput = Tea.Doc.fact_body_Program_restoreInput := rfl

end Tea.Props.Bridge.C05
