import Tea.Gen.Facts
import Tea.Doc.Facts
/-
Bridge theorems of C02: the facts the go/ast extractor reads from /repo's CURRENT source
(`Tea.Gen`, regenerated on every run) equal the frozen expectation the models and theorems
of this property were written against (`Tea.Doc`). Written by checklib/mkbridges.py.
-/
namespace Tea.Props.Bridge.C02

theorem sends : Tea.Gen.fact_sends = Tea.Doc.fact_sends := rfl
theorem recvs : Tea.Gen.fact_recvs = Tea.Doc.fact_recvs := rfl
theorem closes : Tea.Gen.fact_closes = Tea.Doc.fact_closes := rfl
theorem makechans : Tea.Gen.fact_makechans = Tea.Doc.fact_makechans := rfl
theorem gostmts : Tea.Gen.fact_gostmts = Tea.Doc.fact_gostmts := rfl
theorem ctxchecks : Tea.Gen.fact_ctxchecks = Tea.Doc.fact_ctxchecks := rfl
theorem calls : Tea.Gen.fact_calls = Tea.Doc.fact_calls := rfl
theorem sendcalls : Tea.Gen.fact_sendcalls = Tea.Doc.fact_sendcalls := rfl
theorem el_head : Tea.Gen.fact_el_head = Tea.Doc.fact_el_head := rfl
theorem el_tail : Tea.Gen.fact_el_tail = Tea.Doc.fact_el_tail := rfl
theorem el_cases : Tea.Gen.fact_el_cases = Tea.Doc.fact_el_cases := rfl
theorem body_Program_Send : Tea.Gen.fact_body_Program_Send = Tea.Doc.fact_body_Program_Send := rfl
theorem body_Program_handleCommands : Tea.Gen.fact_body_Program_handleCommands = Tea.Doc.fact_body_Program_handleCommands := rfl
theorem el_case_BatchMsg : Tea.Gen.fact_el_case_BatchMsg = Tea.Doc.fact_el_case_BatchMsg := rfl
theorem body_NewProgram : Tea.Gen.fact_body_NewProgram = Tea.Doc.fact_body_NewProgram := rfl
theorem body_WithoutCatchPanics : Tea.Gen.fact_body_WithoutCatchPanics = Tea.Doc.fact_body_WithoutCatchPanics := rfl

end Tea.Props.Bridge.C02
