import Tea.Gen.Facts
import Tea.Doc.Facts
/-
Bridge theorems of C06: the facts the go/ast extractor reads from /repo's CURRENT source
(`Tea.Gen`, regenerated on every run) equal the frozen expectation the models and theorems
of this property were written against (`Tea.Doc`). Written by checklib/mkbridges.py.
-/
namespace Tea.Props.Bridge.C06

theorem body_standardRenderer_write : Tea.Gen.fact_body_standardRenderer_write = Tea.Doc.fact_body_standardRenderer_write := rfl
theorem body_standardRenderer_repaint : Tea.Gen.fact_body_standardRenderer_repaint = Tea.Doc.fact_body_standardRenderer_repaint := rfl
theorem body_standardRenderer_handleMessages : Tea.Gen.fact_body_standardRenderer_handleMessages = Tea.Doc.fact_body_standardRenderer_handleMessages := rfl
theorem locks : Tea.Gen.fact_locks = Tea.Doc.fact_locks := rfl

end Tea.Props.Bridge.C06
