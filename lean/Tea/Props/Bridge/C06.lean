import Tea.Gen.Facts
import Tea.Doc.Facts
/-
Bridge theorems of C06: the facts the go/ast extractor reads from /repo's CURRENT source
(`Tea.Gen`, regenerated on every run) equal the frozen expectation the models and theorems
of this property were written against (`Tea.Doc`). Written by checklib/mkbridges.py.
-/
namespace Tea.Props.Bridge.C06

theorem locks : Tea.Gen.fact_locks = Tea.Doc.fact_locks := rfl
theorem body_standardRenderer_render : Tea.Gen.fact_body_standardRenderer_render = Tea.Doc.fact_body_standardRenderer_render := rfl
theorem body_standardRenderer_flush : Tea.Gen.fact_body_standardRenderer_flush = Tea.Doc.fact_body_standardRenderer_flush := rfl
theorem body_standardRenderer_write : Tea.Gen.fact_body_standardRenderer_write = Tea.Doc.fact_body_standardRenderer_write := rfl
theorem body_standardRenderer_repaint : Tea.Gen.fact_body_standardRenderer_repaint = Tea.Doc.fact_body_standardRenderer_repaint := rfl
theorem body_standardRenderer_handleMessages : Tea.Gen.fact_body_standardRenderer_handleMessages = Tea.Doc.fact_body_standardRenderer_handleMessages := rfl
theorem body_standardRenderer_stop : Tea.Gen.fact_body_standardRenderer_stop = Tea.Doc.fact_body_standardRenderer_stop := rfl
theorem body_standardRenderer_kill : Tea.Gen.fact_body_standardRenderer_kill = Tea.Doc.fact_body_standardRenderer_kill := rfl
theorem body_standardRenderer_clearScreen : Tea.Gen.fact_body_standardRenderer_clearScreen = Tea.Doc.fact_body_standardRenderer_clearScreen := rfl
theorem body_standardRenderer_enterAltScreen : Tea.Gen.fact_body_standardRenderer_enterAltScreen = Tea.Doc.fact_body_standardRenderer_enterAltScreen := rfl
theorem body_standardRenderer_exitAltScreen : Tea.Gen.fact_body_standardRenderer_exitAltScreen = Tea.Doc.fact_body_standardRenderer_exitAltScreen := rfl
theorem body_standardRenderer_execute : Tea.Gen.fact_body_standardRenderer_execute = Tea.Doc.fact_body_standardRenderer_execute := rfl
theorem body_standardRenderer_lastLinesRendered : Tea.Gen.fact_body_standardRenderer_lastLinesRendered = Tea.Doc.fact_body_standardRenderer_lastLinesRendered := rfl
theorem body_standardRenderer_setWindowTitle : Tea.Gen.fact_body_standardRenderer_setWindowTitle = Tea.Doc.fact_body_standardRenderer_setWindowTitle := rfl
theorem body_WithANSICompressor : Tea.Gen.fact_body_WithANSICompressor = Tea.Doc.fact_body_WithANSICompressor := rfl
theorem body_WithOutput : Tea.Gen.fact_body_WithOutput = Tea.Doc.fact_body_WithOutput := rfl

end Tea.Props.Bridge.C06
