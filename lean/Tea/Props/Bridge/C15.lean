import Tea.Gen.Facts
import Tea.Doc.Facts
/-
Bridge theorems of C15: the facts the go/ast extractor reads from /repo's CURRENT source
(`Tea.Gen`, regenerated on every run) equal the frozen expectation the models and theorems
of this property were written against (`Tea.Doc`). Written by checklib/mkbridges.py.
-/
namespace Tea.Props.Bridge.C15

theorem bufsize : Tea.Gen.fact_bufsize = Tea.Doc.fact_bufsize := rfl
theorem regexps : Tea.Gen.fact_regexps = Tea.Doc.fact_regexps := rfl
theorem body_readAnsiInputs : Tea.Gen.fact_body_readAnsiInputs = Tea.Doc.fact_body_readAnsiInputs := rfl
theorem body_detectOneMsg : Tea.Gen.fact_body_detectOneMsg = Tea.Doc.fact_body_detectOneMsg := rfl
theorem body_detectSequence : Tea.Gen.fact_body_detectSequence = Tea.Doc.fact_body_detectSequence := rfl
theorem body_detectBracketedPaste : Tea.Gen.fact_body_detectBracketedPaste = Tea.Doc.fact_body_detectBracketedPaste := rfl
theorem body_detectReportFocus : Tea.Gen.fact_body_detectReportFocus = Tea.Doc.fact_body_detectReportFocus := rfl
theorem body_isIncompleteEvent : Tea.Gen.fact_body_isIncompleteEvent = Tea.Doc.fact_body_isIncompleteEvent := rfl
theorem body_newInputReader : Tea.Gen.fact_body_newInputReader = Tea.Doc.fact_body_newInputReader := rfl
theorem body_readInputs : Tea.Gen.fact_body_readInputs = Tea.Doc.fact_body_readInputs := rfl

end Tea.Props.Bridge.C15
