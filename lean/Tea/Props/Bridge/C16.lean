import Tea.Gen.Facts
import Tea.Doc.Facts
/-
Bridge theorems of C16: the facts the go/ast extractor reads from /repo's CURRENT source
(`Tea.Gen`, regenerated on every run) equal the frozen expectation the models and theorems
of this property were written against (`Tea.Doc`). Written by checklib/mkbridges.py.
-/
namespace Tea.Props.Bridge.C16

theorem el_head : Tea.Gen.fact_el_head = Tea.Doc.fact_el_head := rfl
theorem el_tail : Tea.Gen.fact_el_tail = Tea.Doc.fact_el_tail := rfl
theorem el_cases : Tea.Gen.fact_el_cases = Tea.Doc.fact_el_cases := rfl
theorem calls : Tea.Gen.fact_calls = Tea.Doc.fact_calls := rfl
theorem sendcalls : Tea.Gen.fact_sendcalls = Tea.Doc.fact_sendcalls := rfl
theorem body_WithFilter : Tea.Gen.fact_body_WithFilter = Tea.Doc.fact_body_WithFilter := rfl
theorem sends : Tea.Gen.fact_sends = Tea.Doc.fact_sends := rfl
theorem body_Program_handleSignals : Tea.Gen.fact_body_Program_handleSignals = Tea.Doc.fact_body_Program_handleSignals := rfl
theorem body_Program_Send : Tea.Gen.fact_body_Program_Send = Tea.Doc.fact_body_Program_Send := rfl
theorem body_NewProgram : Tea.Gen.fact_body_NewProgram = Tea.Doc.fact_body_NewProgram := rfl

end Tea.Props.Bridge.C16
