import Tea.Gen.Facts
import Tea.Doc.Facts
/-
Bridge theorems of C12: the facts the go/ast extractor reads from /repo's CURRENT source
(`Tea.Gen`, regenerated on every run) equal the frozen expectation the models and theorems
of this property were written against (`Tea.Doc`). Written by checklib/mkbridges.py.
-/
namespace Tea.Props.Bridge.C12

theorem locks : Tea.Gen.fact_locks = Tea.Doc.fact_locks := rfl
theorem order_Program_Run : Tea.Gen.fact_order_Program_Run = Tea.Doc.fact_order_Program_Run := rfl
theorem order_Program_disableMouse : Tea.Gen.fact_order_Program_disableMouse = Tea.Doc.fact_order_Program_disableMouse := rfl
theorem el_case_enterAltScreenMsg : Tea.Gen.fact_el_case_enterAltScreenMsg = Tea.Doc.fact_el_case_enterAltScreenMsg := rfl
theorem el_case_exitAltScreenMsg : Tea.Gen.fact_el_case_exitAltScreenMsg = Tea.Doc.fact_el_case_exitAltScreenMsg := rfl
theorem el_case_enableMouseCellMotionMsg_enableMouseAllMotionMsg : Tea.Gen.fact_el_case_enableMouseCellMotionMsg_enableMouseAllMotionMsg = Tea.Doc.fact_el_case_enableMouseCellMotionMsg_enableMouseAllMotionMsg := rfl
theorem el_case_disableMouseMsg : Tea.Gen.fact_el_case_disableMouseMsg = Tea.Doc.fact_el_case_disableMouseMsg := rfl
theorem el_case_showCursorMsg : Tea.Gen.fact_el_case_showCursorMsg = Tea.Doc.fact_el_case_showCursorMsg := rfl
theorem el_case_hideCursorMsg : Tea.Gen.fact_el_case_hideCursorMsg = Tea.Doc.fact_el_case_hideCursorMsg := rfl
theorem el_case_enableBracketedPasteMsg : Tea.Gen.fact_el_case_enableBracketedPasteMsg = Tea.Doc.fact_el_case_enableBracketedPasteMsg := rfl
theorem el_case_disableBracketedPasteMsg : Tea.Gen.fact_el_case_disableBracketedPasteMsg = Tea.Doc.fact_el_case_disableBracketedPasteMsg := rfl
theorem el_case_enableReportFocusMsg : Tea.Gen.fact_el_case_enableReportFocusMsg = Tea.Doc.fact_el_case_enableReportFocusMsg := rfl
theorem el_case_disableReportFocusMsg : Tea.Gen.fact_el_case_disableReportFocusMsg = Tea.Doc.fact_el_case_disableReportFocusMsg := rfl
theorem el_case_clearScreenMsg : Tea.Gen.fact_el_case_clearScreenMsg = Tea.Doc.fact_el_case_clearScreenMsg := rfl
theorem body_WithAltScreen : Tea.Gen.fact_body_WithAltScreen = Tea.Doc.fact_body_WithAltScreen := rfl
theorem body_WithoutBracketedPaste : Tea.Gen.fact_body_WithoutBracketedPaste = Tea.Doc.fact_body_WithoutBracketedPaste := rfl
theorem body_WithMouseCellMotion : Tea.Gen.fact_body_WithMouseCellMotion = Tea.Doc.fact_body_WithMouseCellMotion := rfl
theorem body_WithMouseAllMotion : Tea.Gen.fact_body_WithMouseAllMotion = Tea.Doc.fact_body_WithMouseAllMotion := rfl
theorem body_WithReportFocus : Tea.Gen.fact_body_WithReportFocus = Tea.Doc.fact_body_WithReportFocus := rfl
theorem body_startupOptions_has : Tea.Gen.fact_body_startupOptions_has = Tea.Doc.fact_body_startupOptions_has := rfl
theorem body_ClearScreen : Tea.Gen.fact_body_ClearScreen = Tea.Doc.fact_body_ClearScreen := rfl
theorem body_EnterAltScreen : Tea.Gen.fact_body_EnterAltScreen = Tea.Doc.fact_body_EnterAltScreen := rfl
theorem body_ExitAltScreen : Tea.Gen.fact_body_ExitAltScreen = Tea.Doc.fact_body_ExitAltScreen := rfl
theorem body_EnableMouseCellMotion : Tea.Gen.fact_body_EnableMouseCellMotion = Tea.Doc.fact_body_EnableMouseCellMotion := rfl
theorem body_EnableMouseAllMotion : Tea.Gen.fact_body_EnableMouseAllMotion = Tea.Doc.fact_body_EnableMouseAllMotion := rfl
theorem body_DisableMouse : Tea.Gen.fact_body_DisableMouse = Tea.Doc.fact_body_DisableMouse := rfl
theorem body_HideCursor : Tea.Gen.fact_body_HideCursor = Tea.Doc.fact_body_HideCursor := rfl
theorem body_ShowCursor : Tea.Gen.fact_body_ShowCursor = Tea.Doc.fact_body_ShowCursor := rfl
theorem body_EnableBracketedPaste : Tea.Gen.fact_body_EnableBracketedPaste = Tea.Doc.fact_body_EnableBracketedPaste := rfl
theorem body_DisableBracketedPaste : Tea.Gen.fact_body_DisableBracketedPaste = Tea.Doc.fact_body_DisableBracketedPaste := rfl
theorem body_EnableReportFocus : Tea.Gen.fact_body_EnableReportFocus = Tea.Doc.fact_body_EnableReportFocus := rfl
theorem body_DisableReportFocus : Tea.Gen.fact_body_DisableReportFocus = Tea.Doc.fact_body_DisableReportFocus := rfl
theorem body_SetWindowTitle : Tea.Gen.fact_body_SetWindowTitle = Tea.Doc.fact_body_SetWindowTitle := rfl
theorem body_Program_EnterAltScreen : Tea.Gen.fact_body_Program_EnterAltScreen = Tea.Doc.fact_body_Program_EnterAltScreen := rfl
theorem body_Program_ExitAltScreen : Tea.Gen.fact_body_Program_ExitAltScreen = Tea.Doc.fact_body_Program_ExitAltScreen := rfl
theorem body_Program_EnableMouseCellMotion : Tea.Gen.fact_body_Program_EnableMouseCellMotion = Tea.Doc.fact_body_Program_EnableMouseCellMotion := rfl
theorem body_Program_DisableMouseCellMotion : Tea.Gen.fact_body_Program_DisableMouseCellMotion = Tea.Doc.fact_body_Program_DisableMouseCellMotion := rfl
theorem body_Program_EnableMouseAllMotion : Tea.Gen.fact_body_Program_EnableMouseAllMotion = Tea.Doc.fact_body_Program_EnableMouseAllMotion := rfl
theorem body_Program_DisableMouseAllMotion : Tea.Gen.fact_body_Program_DisableMouseAllMotion = Tea.Doc.fact_body_Program_DisableMouseAllMotion := rfl
theorem body_Program_SetWindowTitle : Tea.Gen.fact_body_Program_SetWindowTitle = Tea.Doc.fact_body_Program_SetWindowTitle := rfl
theorem body_standardRenderer_altScreen : Tea.Gen.fact_body_standardRenderer_altScreen = Tea.Doc.fact_body_standardRenderer_altScreen := rfl
theorem body_standardRenderer_bracketedPasteActive : Tea.Gen.fact_body_standardRenderer_bracketedPasteActive = Tea.Doc.fact_body_standardRenderer_bracketedPasteActive := rfl
theorem body_standardRenderer_reportFocus : Tea.Gen.fact_body_standardRenderer_reportFocus = Tea.Doc.fact_body_standardRenderer_reportFocus := rfl
theorem body_standardRenderer_execute : Tea.Gen.fact_body_standardRenderer_execute = Tea.Doc.fact_body_standardRenderer_execute := rfl
theorem body_standardRenderer_setWindowTitle : Tea.Gen.fact_body_standardRenderer_setWindowTitle = Tea.Doc.fact_body_standardRenderer_setWindowTitle := rfl

end Tea.Props.Bridge.C12
