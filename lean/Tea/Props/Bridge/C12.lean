import Tea.Gen.Facts
import Tea.Doc.Facts
/-
Bridge theorems of C12: the facts the go/ast extractor reads from /repo's CURRENT source
(`Tea.Gen`, regenerated on every run) equal the frozen expectation the models and theorems
of this property were written against (`Tea.Doc`). Written by checklib/mkbridges.py.
-/
namespace Tea.Props.Bridge.C12

theorem locks : Tea.Gen.fact_locks = Tea.Doc.fact_locks := rfl
theorem order_Program_Run : Tea.Gen.fact_order_Program_Run = Tea.Doc.fact_order_Program_Run := rfl
theorem order_Program_disableMouse : Tea.Gen.fact_order_Program_disableMouse = Tea.Doc.fact_order_Program_disableMouse := rfl
theorem el_case_enterAltScreenMsg : Tea.Gen.fact_el_case_enterAltScreenMsg = Tea.Doc.fact_el_case_enterAltScreenMsg := rfl
theorem el_case_exitAltScreenMsg : Tea.Gen.fact_el_case_exitAltScreenMsg = Tea.Doc.fact_el_case_exitAltScreenMsg := rfl
theorem el_case_enableMouseCellMotionMsg_enableMouseAllMotionMsg : Tea.Gen.fact_el_case_enableMouseCellMotionMsg_enableMouseAllMotionMsg = Tea.Doc.fact_el_case_enableMouseCellMotionMsg_enableMouseAllMotionMsg := rfl
theorem el_case_disableMouseMsg : Tea.Gen.fact_el_case_disableMouseMsg = Tea.Doc.fact_el_case_disableMouseMsg := rfl
theorem el_case_showCursorMsg : Tea.Gen.fact_el_case_showCursorMsg = Tea.Doc.fact_el_case_showCursorMsg := rfl
theorem el_case_hideCursorMsg : Tea.Gen.fact_el_case_hideCursorMsg = Tea.Doc.fact_el_case_hideCursorMsg := rfl
theorem el_case_enableBracketedPasteMsg : Tea.Gen.fact_el_case_enableBracketedPasteMsg = Tea.Doc.fact_el_case_enableBracketedPasteMsg := rfl
theorem el_case_disableBracketedPasteMsg : Tea.Gen.fact_el_case_disableBracketedPasteMsg = Tea.Doc.fact_el_case_disableBracketedPasteMsg := rfl
theorem el_case_enableReportFocusMsg : Tea.Gen.fact_el_case_enableReportFocusMsg = Tea.Doc.fact_el_case_enableReportFocusMsg := rfl
theorem el_case_disableReportFocusMsg : Tea.Gen.fact_el_case_disableReportFocusMsg = Tea.Doc.fact_el_case_disableReportFocusMsg := rfl
theorem el_case_clearScreenMsg : Tea.Gen.fact_el_case_clearScreenMsg = Tea.Doc.fact_el_case_clearScreenMsg := rfl

end Tea.Props.Bridge.C12
