import Tea.Proofs.LifecycleExec
import Tea.Proofs.LifeAccept
/-
C04 — Run always returns, with the right error, whatever is in flight at termination.

"After a quit message, Quit(), Kill(), cancellation of the supplied context, an
interrupt message, SIGINT/SIGTERM, an input read error or a recovered panic, Run
returns as soon as any in-progress user callback returns - no matter what else is
happening: an Update or View in progress, commands that never return, a Batch being
dispatched, goroutines blocked in Send, unread or never-ending input. The error is nil
only for a quit, ErrInterrupted for an interrupt, wraps ErrProgramKilled for Kill,
context cancellation and recovered panics, and is the reader's error for an input
failure; end of input (EOF) alone does not end the program."

The theorems are about the Lifecycle LTS (Tea/Runtime/Lifecycle.lean): Run's start-up
(from the moment Run is entered: `init0 c`), the event loop,
the command dispatcher, the handler goroutines, the read loop, the renderer's listen
goroutine, Run's tail, every concurrent caller of shutdown (Kill(), panic handlers) and
any number of goroutines blocked in Send or Wait. They hold for EVERY configuration
`c : Config` and EVERY schedule (`Reachable c s` quantifies over all label sequences
from `init0 c`, external labels - user code returning or panicking, failures of the
start-up, signals, input, API calls, Kill(), parent-context cancellation - included; a
Kill() or a cancellation may come at ANY point of the start-up, section 5, and at ANY point of an
Exec - ReleaseTerminal, the external command, RestoreTerminal, all on the event-loop goroutine -,
section 6).

Vocabulary (defined in `Tea/Proofs/Lifecycle.lean`, restated below by `rfl` theorems):
* `Terminating s`   the context is cancelled, or the loop has exited, or a shutdown caller
                    on another goroutine (Kill(), a panic handler) exists;
                    or Run is past its loop / its start-up (start-up failure, start-up panic);
* `NoCallback s`    no user code (filter/Update, View, the output writer; during the start-up:
                    the writer of the mode sequences, Init, the first View) is in progress on
                    a goroutine the shutdown waits for; `LoopQuiet s` is the same without the
                    three clauses about Run's start-up;
* `progressLabel l` `l` is one of the internal steps that move the termination forward - the
                    internal steps of Run's start-up are among them -;
                    the hand-over of a message to a running loop and the returns of the API
                    callers (`sendAbort`, `waitReturn`) are NOT progress labels, so the
                    theorems say that Run's return needs the help of no other goroutine;
                    the internal steps of an Exec on the loop's goroutine are progress labels too;
* `startupReturn l` `l` is the return of user code Run calls while starting up (the writer of the
                    mode sequences, Init, the first View); `startupScheduleLabel` = progress or that;
* `userReturn l`    `l` is the return of user code on a goroutine a shutdown depends on: filter /
                    Update, View, the output writer, the start-up's user code, the command of an
                    Exec; `scheduleLabel` = progress or that;
* `rank s`          the amount of termination work left (a natural number); `pendW s` (0, 1 or 2)
                    counts the user code in progress on the loop (or still to be entered by the Exec
                    in progress) and on the listen goroutine.
Only property theorems live here; helper lemmas are in `Tea/Proofs/Lifecycle.lean` (induction
principle, invariants, stability), `Tea/Proofs/LifecycleRank.lean` (rank, no deadlock) and
`Tea/Proofs/LifecycleStartup.lean` (strikes and failures during the start-up),
`Tea/Proofs/LifecycleExec.lean` (Exec: the round trip, strikes during an Exec).
-/
namespace Tea.Props.C04
open Tea.Runtime.Life

/-! ### vocabulary, restated -/

/-- the steps that count as progress of the termination -/
theorem progressLabel_def (l : Label) : progressLabel l =
    match l with
    | .elCtxExit | .elCmdAbort | .runTail | .shCancel _ | .shHandlers _ | .shReader _ | .shWaitRead _
    | .shWaitReadTimeout _ | .shRenderer _ | .shRestore _ | .runReturn | .dispExit | .sigExit | .sigAbort
    | .resizeExit | .initAbort | .readerMsgAbort | .readerErrAbort | .readerCanceled
    | .suSigHandler | .suNewRenderer | .suStartRenderer | .suSpawnInit | .suOpenReader | .suSpawnHandlers
    | .exRelCancel | .exRelWaitRead | .exRelWaitTimeout | .exRelRenderer | .exRelRestore
    | .exResReader | .exResRenderer | .exResSpawn => true
    | _ => false := by
  cases l <;> rfl

/-- the returns of the user code of Run's start-up -/
theorem startupReturn_def (l : Label) : startupReturn l =
    match l with
    | .startWriterReturns | .initReturns | .firstViewReturns => true
    | _ => false := by
  cases l <;> rfl

/-- the returns of user code on the goroutines a shutdown depends on -/
theorem userReturn_def (l : Label) : userReturn l =
    match l with
    | .callbackReturns | .viewReturns | .writerReturns | .startWriterReturns | .initReturns
    | .firstViewReturns | .execCmdReturns => true
    | _ => false := by
  cases l <;> rfl

/-- the alphabet of the schedules that bring Run to its return -/
theorem scheduleLabel_def (l : Label) : scheduleLabel l = (progressLabel l || userReturn l) := rfl

/-- the alphabet that suffices outside an Exec when no user code is in progress on the loop or the
listen goroutine -/
theorem startupScheduleLabel_def (l : Label) :
    startupScheduleLabel l = (progressLabel l || startupReturn l) := rfl

/-- the progress steps after which a goroutine is inside user code: Run inside the user code of its
start-up; the loop waiting for the command of an Exec, inside Update with the execMsg -/
theorem entersUserCode_def (l : Label) : entersUserCode l =
    match l with
    | .suNewRenderer | .suStartRenderer | .suSpawnInit | .exRelRestore | .exResSpawn => true
    | _ => false := by
  cases l <;> rfl

/-- `NoCallback` without the clauses about Run's start-up and the command of an Exec; `NoCallback`
is this and "Run is not inside the writer of the mode sequences, Init or the first View" and "the
loop is not waiting for the command of an Exec" -/
theorem loopQuiet_def (s : St) :
    LoopQuiet s = (s.el ≠ .callback ∧ s.el ≠ .view ∧ s.listen ≠ .flushing) := rfl

theorem noCallback_def (s : St) : NoCallback s ↔ (LoopQuiet s ∧
    ¬ (s.runPc = .starting .modeWrites ∨ s.runPc = .starting .initCall ∨ s.runPc = .starting .firstView) ∧
    s.el ≠ .execCmd) :=
  noCallback_iff s

/-- the loop is inside an Exec -/
theorem inExec_def (e : ElPc) : e.inExec =
    match e with
    | .execRelease _ | .execCmd | .execRestore _ => true
    | _ => false := by
  cases e <;> rfl

/-- every progress label is an internal step of the runtime: none is an action of the
environment or of user code -/
theorem progressLabel_isLifecycle (l : Label) (h : progressLabel l = true) : l.isLifecycle = true :=
  progress_isLifecycle l h

/-- the rank: steps left for Run itself (the stages of its start-up, leave the loop, the phases of
shutdown, return), the phases left for every other shutdown caller, one for the loop (more inside
an Exec), the dispatcher, every handler goroutine and the read loop while they have not exited, and
sixteen for every Exec message the loop has not received yet -/
theorem rank_def (s : St) : rank s =
    runW s + killersW s.killers + elW s.el + (if s.dispAlive = true then 1 else 0) + sigW s.sig
      + hW s.resize + hW s.initG + readW s.reader + sendersW s.senders := rfl

/-- the loop's share: one until it has exited; inside an Exec two per remaining phase on top -/
theorem elW_def (e : ElPc) : elW e =
    match e with
    | .exited _ => 0
    | .execRelease .cancelReader => 17 | .execRelease .waitRead => 15 | .execRelease .renderer => 13
    | .execRelease .restore => 11 | .execCmd => 9
    | .execRestore .reader => 7 | .execRestore .renderer => 5 | .execRestore .spawn => 3
    | _ => 1 := by
  cases e <;> first | rfl | (rename_i ph; cases ph <;> rfl)

/-- an Exec message the loop has not received yet weighs what its Exec will add to the loop's share
(sixteen); every other caller nothing -/
theorem sendersW_def (ss : List Caller) : sendersW ss =
    (ss.map (fun c => match c.kind, c.pc with
      | .exec, .returned => 0
      | .exec, _ => 16
      | _, _ => 0)).sum := rfl

/-- user code in progress (or to be entered by the Exec in progress): what a schedule needs on top
of the rank -/
theorem pendW_def (s : St) : pendW s =
    (match s.el with
      | .callback | .view | .execRelease _ | .execCmd | .execRestore _ => 1
      | _ => 0) + (if s.listen = .flushing then 1 else 0) := rfl

/-- Run's share: four per remaining stage of the start-up (a stage spawns at most three goroutines)
on top of the eight of the loop; the phases of its shutdown plus one in the tail -/
theorem runW_def (s : St) : runW s =
    match s.runPc with
    | .starting p => stageW p
    | .loop => 8
    | .tail => phaseW s.runSh + 1
    | .returned => 0 := rfl

theorem stageW_def (p : StartPc) : stageW p =
    match p with
    | .sigHandler => 44 | .newRenderer => 40 | .modeWrites => 36 | .startRenderer => 32 | .initCall => 28
    | .spawnInit => 24 | .firstView => 20 | .openReader => 16 | .spawnHandlers => 12 := by
  cases p <;> rfl

/-! ### 1. Run's return cannot be blocked -/

/-- NO DEADLOCK. In every reachable state in which termination has begun (for whatever reason),
Run has not returned yet and no user callback is in progress, some progress step is enabled:
Run's return is never blocked by a command that does not return, a Batch being dispatched,
goroutines blocked in Send, the signal handler, unread or never-ending input, or a concurrent
Kill(). -/
theorem C04_no_deadlock (c : Config) (s : St) (hr : Reachable c s) (ht : Terminating s)
    (hn : s.runPc ≠ .returned) (hc : NoCallback s) :
    ∃ l, progressLabel l = true ∧ (step s l).isSome = true :=
  no_deadlock hr ht hn hc

/-- ... in particular a lifecycle step is enabled (the form asked for in the task) -/
theorem C04_no_deadlock_lifecycle (c : Config) (s : St) (hr : Reachable c s) (ht : Terminating s)
    (hn : s.runPc ≠ .returned) (hc : NoCallback s) :
    ∃ l, l.isLifecycle = true ∧ (step s l).isSome = true := by
  obtain ⟨l, hp, he⟩ := no_deadlock hr ht hn hc
  exact ⟨l, progress_isLifecycle l hp, he⟩

/-- the contrapositive: a reachable terminating state without a callback in progress in which
no progress step is enabled is a state in which Run HAS returned -/
theorem C04_stuck_means_returned (c : Config) (s : St) (hr : Reachable c s) (ht : Terminating s)
    (hc : NoCallback s) (hstuck : ∀ l, progressLabel l = true → step s l = none) :
    s.runPc = .returned := by
  apply Classical.byContradiction
  intro hn
  obtain ⟨l, hp, he⟩ := no_deadlock hr ht hn hc
  rw [hstuck l hp] at he
  cases he

/- FALSE in the model with Exec (the previous round's statement; `scheduleLabel` was progress ∪ returns
of the start-up's user code):

    theorem C04_no_deadlock_startup (c : Config) (s : St) (hr : Reachable c s) (ht : Terminating s)
        (hn : s.runPc ≠ .returned) (hq : LoopQuiet s) :
        ∃ l, startupScheduleLabel l = true ∧ (step s l).isSome = true

  counterexample: the loop waits for the command of an Exec (`el = .execCmd`: `LoopQuiet` holds), the
  context is cancelled and everybody else is done: the only enabled step is `execCmdReturns`. -/

/-- the same when Run may be INSIDE the user code of its start-up (the writer of the mode sequences,
Init, the first View), the loop being outside an Exec: then that code's return is the enabled step -/
theorem C04_no_deadlock_startup_partial (c : Config) (s : St) (hr : Reachable c s) (ht : Terminating s)
    (hn : s.runPc ≠ .returned) (hq : LoopQuiet s) (hex : s.el.inExec = false) :
    ∃ l, startupScheduleLabel l = true ∧ (step s l).isSome = true :=
  no_deadlock_startup hr ht hn hq hex

/-- NO DEADLOCK, WHATEVER IS IN PROGRESS. In EVERY reachable state in which termination has begun and
Run has not returned, a progress step or the return of user code in progress (Update, View, the
writer, the start-up's user code, the command of an Exec) is enabled. -/
theorem C04_no_deadlock_any (c : Config) (s : St) (hr : Reachable c s) (ht : Terminating s)
    (hn : s.runPc ≠ .returned) :
    ∃ l, scheduleLabel l = true ∧ (step s l).isSome = true :=
  no_deadlock_schedule hr ht hn

/-! ### 2. ... and it comes after a bounded number of steps -/

/-- BOUNDED. Every progress step strictly decreases the rank. -/
theorem C04_bounded (s s' : St) (l : Label) (hp : progressLabel l = true)
    (hs : step s l = some s') : rank s' < rank s :=
  rank_decreases hp hs

/-- ... and so does every return of the user code of the start-up -/
theorem C04_bounded_startup (s s' : St) (l : Label) (hp : startupScheduleLabel l = true)
    (hs : step s l = some s') : rank s' < rank s :=
  rank_decreases_startup hp hs

/-- ... and every step of a schedule - the returns of Update, View, the writer and the command of
an Exec included - strictly decreases the rank plus the user code in progress -/
theorem C04_bounded_schedule (s s' : St) (l : Label) (hp : scheduleLabel l = true)
    (hs : step s l = some s') : rank s' + pendW s' < rank s + pendW s :=
  sched_decreases hp hs

/-- no other step of anybody - user code returning or panicking, signals, input, ticks, API
calls, parent cancellation, message hand-overs - increases the rank, except a new
shutdown caller (`killCall`: Kill() or a panic handler on another goroutine) ... -/
theorem C04_rank_never_increases (s s' : St) (l : Label) (hl : l ≠ .killCall)
    (hs : step s l = some s') : rank s' ≤ rank s :=
  rank_le hl hs

/-- ... which adds exactly the six steps of its own shutdown call -/
theorem C04_rank_kill (s s' : St) (hs : step s .killCall = some s') : rank s' = rank s + 6 :=
  rank_killCall hs

/-- so in ANY schedule whatsoever the number of progress steps is bounded: by the rank at the
start plus six for every Kill() that joins in -/
theorem C04_progress_budget (s s' : St) (ls : List Label) (h : runLabels s ls = some s') :
    ls.countP progressLabel + rank s' ≤ rank s + 6 * ls.count .killCall :=
  progress_budget ls h

/-- termination, once begun, stays begun, whatever happens next -/
theorem C04_terminating_stable (s s' : St) (ls : List Label) (h : runLabels s ls = some s')
    (ht : Terminating s) : Terminating s' :=
  terminating_runLabels ls h ht

/- FALSE in the extended model (three steps of Run's start-up and two steps of an Exec END inside user
code):

    theorem C04_progress_starts_no_callback (s s' : St) (l : Label) (hp : progressLabel l = true)
        (hs : step s l = some s') (hc : NoCallback s) : NoCallback s'

  counterexample: `init0 c`, `suSigHandler`, then `l = suNewRenderer`: the state before is at stage
  `newRenderer` (`NoCallback`), the state after at stage `modeWrites` (inside the user's writer). -/

/-- progress steps start no user code - except the steps after which, by construction, Run is inside
the writer of the mode sequences, Init, the first View, or the loop waits for the command of an Exec
/ is inside Update with the execMsg -/
theorem C04_progress_starts_no_callback_partial (s s' : St) (l : Label) (hp : progressLabel l = true)
    (hne : entersUserCode l = false)
    (hs : step s l = some s') (hc : NoCallback s) : NoCallback s' :=
  noCallback_progress hp hne hs hc

/-- ... no step of a schedule (progress steps, returns of user code) starts user code on the loop or
the listen goroutine, except the last step of an Exec (`exResSpawn`: Update receives the execMsg);
and once the start-up is over and the loop is outside an Exec no progress step starts any -/
theorem C04_schedule_starts_no_loop_callback (s s' : St) (l : Label) (hp : scheduleLabel l = true)
    (hne : l ≠ .exResSpawn) (hs : step s l = some s') (hq : LoopQuiet s) : LoopQuiet s' :=
  loopQuiet_schedule hp hne hs hq

theorem C04_progress_starts_no_callback_after_startup (s s' : St) (l : Label)
    (hp : progressLabel l = true) (hs : step s l = some s') (hpast : ∀ p, s.runPc ≠ .starting p)
    (hex : s.el.inExec = false) (hc : NoCallback s) :
    NoCallback s' ∧ (∀ p, s'.runPc ≠ .starting p) ∧ s'.el.inExec = false :=
  noCallback_progress_past hp hs hpast hex hc

/- FALSE in the extended model (a Run that is starting up still has Init and the first View to call; a
loop that is inside an Exec still has the command to wait for and Update to call):

    theorem C04_run_returns (c : Config) (s : St) (hr : Reachable c s) (ht : Terminating s)
        (hc : NoCallback s) :
        ∃ ls s', (∀ l ∈ ls, progressLabel l = true) ∧ ls.length ≤ rank s ∧ runLabels s ls = some s' ∧
          s'.runPc = .returned

  counterexamples: `init0 c`, `killCall` (stage `sigHandler`: after `suSigHandler`, `suNewRenderer` Run
  is inside the user's writer, which only the external `startWriterReturns` ends); and, in the loop:
  an Exec message is received, `exRelCancel`, `killCall`: no callback is in progress, but after
  `exRelRestore` the loop waits for the command, which only the external `execCmdReturns` ends.

  Also FALSE now, the previous round's variant (`scheduleLabel` was progress ∪ start-up returns):

    theorem C04_run_returns_partial (c : Config) (s : St) (hr : Reachable c s) (ht : Terminating s)
        (hq : LoopQuiet s) :
        ∃ ls s', (∀ l ∈ ls, startupScheduleLabel l = true) ∧ ls.length ≤ rank s ∧
          runLabels s ls = some s' ∧ s'.runPc = .returned

  by the second counterexample; it holds outside an Exec (`C04_run_returns_outside_exec`). -/

/-- RUN RETURNS. From EVERY reachable state in which termination has begun - Run at any stage of
its start-up, the loop at any point of an Exec, user code in progress anywhere - there is a
schedule of at most `rank s + pendW s` steps, every one enabled in turn, at the end of which Run has
returned; the steps are progress steps (no help from the environment, Send callers or waiters)
and the returns of user code: the one in progress, and the ones a Run that is starting up / a loop
that is inside an Exec has yet to call (Init, the first View; the command, Update). With
`C04_no_deadlock_any` (such a step exists as long as Run has not returned), `C04_bounded_schedule`
(each one consumes) and `C04_rank_never_increases` (nobody but a new Kill() gives rank back) this
is: Run returns as soon as any in-progress callback returns. -/
theorem C04_run_returns_partial (c : Config) (s : St) (hr : Reachable c s) (ht : Terminating s) :
    ∃ ls s', (∀ l ∈ ls, scheduleLabel l = true) ∧ ls.length ≤ rank s + pendW s ∧
      runLabels s ls = some s' ∧ s'.runPc = .returned :=
  run_returns hr ht

/-- ... when the loop is outside an Exec and no user code is in progress on the loop or the listen
goroutine (Run at any stage of its start-up): at most `rank s` steps, progress steps and the returns
of the start-up's user code -/
theorem C04_run_returns_outside_exec (c : Config) (s : St) (hr : Reachable c s) (ht : Terminating s)
    (hq : LoopQuiet s) (hex : s.el.inExec = false) :
    ∃ ls s', (∀ l ∈ ls, startupScheduleLabel l = true) ∧ ls.length ≤ rank s ∧ runLabels s ls = some s' ∧
      s'.runPc = .returned :=
  run_returns_quiet hr ht hq hex

/-- ... and once the start-up is over (Run is in its loop or its tail), the loop being outside an
Exec, progress steps ALONE do it: the theorem of the model that began at the loop and had no Exec is
the special case "neither starting up nor inside an Exec" -/
theorem C04_run_returns_after_startup (c : Config) (s : St) (hr : Reachable c s) (ht : Terminating s)
    (hc : NoCallback s) (hpast : ∀ p, s.runPc ≠ .starting p) (hex : s.el.inExec = false) :
    ∃ ls s', (∀ l ∈ ls, progressLabel l = true) ∧ ls.length ≤ rank s ∧ runLabels s ls = some s' ∧
      s'.runPc = .returned :=
  run_returns_past hr ht hc hpast hex

/-- KILL() RETURNS TOO. The same for the other callers of shutdown: a Kill() (or a panic handler
on a command goroutine) that has not finished its shutdown is never blocked when no callback
is in progress ... -/
theorem C04_kill_not_blocked (c : Config) (s : St) (hr : Reachable c s) (hc : NoCallback s)
    (j : Nat) (ph : ShPhase) (hj : s.killers[j]? = some ph) (hph : ph ≠ .done) :
    ∃ l, progressLabel l = true ∧ (step s l).isSome = true :=
  killer_no_deadlock hr hc j ph hj hph

/- FALSE in the extended model, for the reason `C04_run_returns` is:

    theorem C04_everybody_done (c : Config) (s : St) (hr : Reachable c s) (hc : NoCallback s) :
        ∃ ls s', (∀ l ∈ ls, progressLabel l = true) ∧ ls.length ≤ rank s ∧ runLabels s ls = some s' ∧
          (Terminating s → s'.runPc = .returned) ∧
          (∀ (j : Nat) (ph : ShPhase), s'.killers[j]? = some ph → ph = .done)

  counterexample: `init0 c`, `killCall` (see `C04_run_returns`). -/

/-- ... and at most `rank s + pendW s` steps (progress steps, returns of user code) lead from EVERY
reachable state to a state in which EVERY shutdown call has completed: Run has returned (if
termination had begun) and every Kill() has finished. -/
theorem C04_everybody_done_partial (c : Config) (s : St) (hr : Reachable c s) :
    ∃ ls s', (∀ l ∈ ls, scheduleLabel l = true) ∧ ls.length ≤ rank s + pendW s ∧
      runLabels s ls = some s' ∧
      (Terminating s → s'.runPc = .returned) ∧ (∀ (j : Nat) (ph : ShPhase), s'.killers[j]? = some ph → ph = .done) :=
  everybody_done hr

/-- ... outside an Exec with no user code in progress on the loop or the listen goroutine: at most
`rank s` steps, progress steps and returns of the start-up's user code -/
theorem C04_everybody_done_outside_exec (c : Config) (s : St) (hr : Reachable c s) (hq : LoopQuiet s)
    (hex : s.el.inExec = false) :
    ∃ ls s', (∀ l ∈ ls, startupScheduleLabel l = true) ∧ ls.length ≤ rank s ∧ runLabels s ls = some s' ∧
      (Terminating s → s'.runPc = .returned) ∧ (∀ (j : Nat) (ph : ShPhase), s'.killers[j]? = some ph → ph = .done) :=
  everybody_done_quiet hr hq hex

/-! ### 3. the error -/

/- FALSE in the extended model (Run can return without its loop ever having begun):

    theorem C04_error_class (c : Config) (s : St) (hr : Reachable c s) (h : s.runPc = .returned) :
        ∃ cause ctxAtCheck, s.el = .exited cause ∧ s.runErr = errOf cause ctxAtCheck

  counterexample: `init0 c`, `suSigHandler`, `suNewRenderer`, `startTermFails` (initTerminal fails):
  Run has returned, `el = .notStarted`, the error is the start-up error. -/

/-- ERROR CLASS. When Run has returned, EITHER the loop had exited for some cause, and the error is
the one Run computes from that cause and the state of the context at the moment of its check
(`errOf`: quit -> nil, or killed if the context was cancelled by then; interrupt ->
ErrInterrupted; cancelled context -> ErrProgramKilled; panic -> ErrProgramKilled; read error
-> the reader's error), OR the loop never began and the error is ErrProgramKilled (Init / the first
View panicked) or the error of the start-up failure (initTerminal, the cancel reader). -/
theorem C04_error_class_partial (c : Config) (s : St) (hr : Reachable c s) (h : s.runPc = .returned) :
    (∃ cause ctxAtCheck, s.el = .exited cause ∧ s.runErr = errOf cause ctxAtCheck) ∨
    (s.el = .notStarted ∧ (s.runErr = .killed ∨ s.runErr = .startup)) := by
  rcases inv_err hr (Or.inr h) with ⟨cz, b, h1, h2, _⟩ | h1
  · exact Or.inl ⟨cz, b, h1, h2⟩
  · exact Or.inr h1

/- FALSE in the extended model (before the loop there is the start-up; the tail can follow it directly):

    theorem C04_tail_after_loop (c : Config) (s : St) (hr : Reachable c s) (h : s.runPc ≠ .loop) :
        ∃ cause, s.el = .exited cause

  counterexamples: `init0 c` itself (`runPc = .starting .sigHandler`); and, in the tail:
  `init0 c`, `suSigHandler`, `suNewRenderer`, `startWriterReturns`, `suStartRenderer`, `initPanics`. -/

/-- Run's tail only runs after the loop has exited - or after a failure / panic of the start-up, the
loop never having begun; and while Run is starting up the loop has not begun -/
theorem C04_tail_after_loop_partial (c : Config) (s : St) (hr : Reachable c s) :
    (s.runPc = .tail ∨ s.runPc = .returned → (∃ cause, s.el = .exited cause) ∨ s.el = .notStarted) ∧
    (∀ p, s.runPc = .starting p → s.el = .notStarted) ∧
    (s.runPc = .loop → s.el ≠ .notStarted) := by
  refine ⟨fun h => ?_, fun p hp => ((inv_start hr).starting p hp).1, fun h => ((inv_start hr).loop h).1⟩
  rcases inv_err hr h with ⟨cz, _, h1, _⟩ | h1
  · exact Or.inl ⟨cz, h1⟩
  · exact Or.inr h1.1

/-- an interrupt (interrupt message or SIGINT) gives ErrInterrupted -/
theorem C04_error_interrupt (c : Config) (s : St) (hr : Reachable c s) (h : s.runPc ≠ .loop)
    (hel : s.el = .exited .interrupt) : s.runErr = .interrupted := by
  obtain ⟨b, h2, _⟩ := err_of_exited hr h hel
  exact h2

/-- a cancelled context (Kill(), cancellation of the supplied context, a panic in a command)
gives an error wrapping ErrProgramKilled -/
theorem C04_error_ctx (c : Config) (s : St) (hr : Reachable c s) (h : s.runPc ≠ .loop)
    (hel : s.el = .exited .ctx) : s.runErr = .killed := by
  obtain ⟨b, h2, _⟩ := err_of_exited hr h hel
  exact h2

/-- a recovered panic in Update / View gives an error wrapping ErrProgramKilled -/
theorem C04_error_panic (c : Config) (s : St) (hr : Reachable c s) (h : s.runPc ≠ .loop)
    (hel : s.el = .exited .panic) : s.runErr = .killed := by
  obtain ⟨b, h2, _⟩ := err_of_exited hr h hel
  exact h2

/-- an input failure gives the reader's error -/
theorem C04_error_reader (c : Config) (s : St) (hr : Reachable c s) (h : s.runPc ≠ .loop)
    (hel : s.el = .exited .readErr) : s.runErr = .reader := by
  obtain ⟨b, h2, _⟩ := err_of_exited hr h hel
  exact h2

/-- a quit (quit message, Quit(), SIGTERM) gives nil - or ErrProgramKilled when the context had
been cancelled as well by the time Run looked (`killed := ctx.Err() != nil || err != nil`) -/
theorem C04_error_quit (c : Config) (s : St) (hr : Reachable c s) (h : s.runPc ≠ .loop)
    (hel : s.el = .exited .quit) : s.runErr = .nil ∨ s.runErr = .killed := by
  obtain ⟨b, h2, _⟩ := err_of_exited hr h hel
  cases b
  · exact Or.inl h2
  · exact Or.inr h2

/- FALSE in the extended model (`runPc ≠ .loop` no longer means "past the loop"):

    theorem C04_nil_only_for_quit (c : Config) (s : St) (hr : Reachable c s) (h : s.runPc ≠ .loop)
        (hnil : s.runErr = .nil) : s.el = .exited .quit

  counterexample: `init0 c` (starting up, no error computed yet, the loop has not begun). -/

/-- NIL ONLY FOR QUIT. Once Run is past its loop / its start-up (in its tail, or returned), a nil
error means the loop ended by a quit: no failure and no panic of the start-up gives nil. -/
theorem C04_nil_only_for_quit_partial (c : Config) (s : St) (hr : Reachable c s)
    (h : s.runPc = .tail ∨ s.runPc = .returned) (hnil : s.runErr = .nil) : s.el = .exited .quit := by
  rcases inv_err hr h with ⟨cz, b, h1, h2, _⟩ | ⟨_, h2⟩
  · rw [hnil] at h2
    cases cz <;> cases b <;> first | exact h1 | cases h2
  · rw [hnil] at h2
    rcases h2 with h2 | h2 <;> cases h2

/-- if the context was already cancelled (Kill(), parent cancellation) when Run left its loop,
the error is never nil, whatever ended the loop -/
theorem C04_cancelled_never_nil (s s' : St) (hs : step s .runTail = some s')
    (hctx : s.ctxDone = true) : s'.runErr ≠ .nil := by
  simp only [step] at hs
  split at hs
  · rename_i cz _
    split at hs
    · cases hs
      cases cz <;> simp [errOf, hctx]
    · cases hs
  · cases hs

/- FALSE in the extended model (`runPc ≠ .loop` no longer means "past the loop"):

    theorem C04_error_fixed (s s' : St) (l : Label) (hs : step s l = some s') (h : s.runPc ≠ .loop) :
        s'.runErr = s.runErr ∧ s'.runPc ≠ .loop

  counterexamples: at stage `initCall`, `initPanics` sets the error; at stage `spawnHandlers`,
  `suSpawnHandlers` enters the loop. -/

/-- the error is fixed when Run leaves its loop / its start-up for its tail: no later step changes
it, and Run never goes back -/
theorem C04_error_fixed_partial (s s' : St) (l : Label) (hs : step s l = some s')
    (h : s.runPc = .tail ∨ s.runPc = .returned) :
    s'.runErr = s.runErr ∧ (s'.runPc = .tail ∨ s'.runPc = .returned) :=
  ⟨err_fixed hs h, pastLoop_stable hs h⟩

/-! ### 4. end of input -/

/-- EOF IS NOT TERMINATION. The end of the input only ends the read loop: the event loop, the
context, Run and the shutdown callers are untouched, and the program is terminating after it
exactly if it was before. -/
theorem C04_eof_is_not_termination (s s' : St) (hs : step s .readEOF = some s') :
    s'.el = s.el ∧ s'.ctxDone = s.ctxDone ∧ s'.runPc = s.runPc ∧ s'.killers = s.killers ∧
      (Terminating s' ↔ Terminating s) := by
  simp only [step] at hs
  split at hs
  · cases hs; exact ⟨rfl, rfl, rfl, rfl, Iff.rfl⟩
  · cases hs

/-! ### 5. the start-up: strikes and failures before the loop begins -/

/-- THE START-UP REACHES THE LOOP. The fault-free schedule - every stage in turn, the writer of the
mode sequences, Init and the first View returning - leads from Run's entry (`init0 c`) to the state
in which the event loop begins with every handler running and the renderer listening (`init c`, the
start of the model before its extension): every reachability fact about `init c` is a special case. -/
theorem C04_startup_reaches_loop (c : Config) :
    startupSchedule =
      [.suSigHandler, .suNewRenderer, .startWriterReturns, .suStartRenderer, .initReturns, .suSpawnInit,
       .firstViewReturns, .suOpenReader, .suSpawnHandlers] ∧
    runLabels (init0 c) startupSchedule = some (init c) ∧ Reachable c (init c) :=
  ⟨rfl, startup_reaches_loop c, Reachable.init⟩

/-- KILL() DURING THE START-UP. For EVERY configuration and EVERY prefix of the fault-free start-up
(`k = 0..8`: the nine stages; `k ≥ 9`: the loop has just begun): that prefix can be run, a Kill()
(or a panic handler on another goroutine) is enabled there, and after it a schedule of at most
`rank` steps - progress steps and the returns of the start-up's user code (the pending one
included), each enabled in turn - brings Run to its return, with ErrProgramKilled. -/
theorem C04_kill_during_startup (c : Config) (k : Nat) :
    ∃ s, runLabels (init0 c) (startupSchedule.take k) = some s ∧
      ∃ s1, step s .killCall = some s1 ∧
        ∃ ls s', (∀ l ∈ ls, startupScheduleLabel l = true) ∧ ls.length ≤ rank s1 ∧
          runLabels s1 ls = some s' ∧ s'.runPc = .returned ∧ s'.runErr = .killed :=
  strike_during_startup c k .killCall rfl

/-- CANCELLATION DURING THE START-UP. The same for the cancellation of the supplied context. -/
theorem C04_cancel_during_startup (c : Config) (k : Nat) :
    ∃ s, runLabels (init0 c) (startupSchedule.take k) = some s ∧
      ∃ s1, step s .parentCancel = some s1 ∧
        ∃ ls s', (∀ l ∈ ls, startupScheduleLabel l = true) ∧ ls.length ≤ rank s1 ∧
          runLabels s1 ls = some s' ∧ s'.runPc = .returned ∧ s'.runErr = .killed :=
  strike_during_startup c k .parentCancel rfl

/-- the four failures of the start-up and the error class of each -/
theorem failureClass_def (l : Label) : failureClass l =
    match l with
    | .startTermFails | .startReaderFails => some .startup
    | .initPanics | .firstViewPanics => some .killed
    | _ => none := by
  cases l <;> rfl

/-- START-UP FAILURES. `initTerminal` fails (`startTermFails`), the cancel reader cannot be opened
(`startReaderFails`), Init or the first View panics: in every reachable state in which such a step
happens, afterwards termination has begun and Run's error has its class - the start-up error, the
start-up error, ErrProgramKilled, ErrProgramKilled; after `startTermFails` Run HAS returned (without
a shutdown; the context is cancelled and `finished` closed by the deferred calls); after the others,
whatever happens next (`ls`), from every state with no callback in progress at most `rank` progress
steps bring Run to its return with that error. -/
theorem C04_startup_failure_returns (c : Config) (s s' : St) (hr : Reachable c s) (l : Label)
    (e : ErrClass) (hl : failureClass l = some e) (hs : step s l = some s') :
    s'.runErr = e ∧ Terminating s' ∧
    (l = .startTermFails → s'.runPc = .returned ∧ s'.ctxDone = true ∧ s'.finishedClosed = true) ∧
    ∀ ls s'', runLabels s' ls = some s'' → NoCallback s'' →
      ∃ ps s3, (∀ l ∈ ps, progressLabel l = true) ∧ ps.length ≤ rank s'' ∧
        runLabels s'' ps = some s3 ∧ s3.runPc = .returned ∧ s3.runErr = e := by
  obtain ⟨_, he, ht, h4⟩ := failure_step hl hs
  exact ⟨he, ht, h4, fun ls s'' hrun hc => failure_returns hr hl hs ls s'' hrun hc⟩

/-- ... and each failure can happen exactly at its stage (the reader's only with an input) -/
theorem C04_startup_failures_enabled (s : St) :
    ((step s .startTermFails).isSome = true ↔ s.runPc = .starting .modeWrites) ∧
    ((step s .initPanics).isSome = true ↔ s.runPc = .starting .initCall) ∧
    ((step s .firstViewPanics).isSome = true ↔ s.runPc = .starting .firstView) ∧
    ((step s .startReaderFails).isSome = true ↔ (s.runPc = .starting .openReader ∧ s.withInput = true)) := by
  simp only [step]
  refine ⟨?_, ?_, ?_, ?_⟩ <;> (split <;> simp_all)

/- FALSE as stated in the task ("if `ctxDone` became true before the loop began, the error class when
Run returns is `.killed`"):

    theorem C04_startup_kill_error (c : Config) (s : St) (hr : Reachable c s) (p : StartPc)
        (hp : s.runPc = .starting p) (hctx : s.ctxDone = true) (ls : List Label) (s' : St)
        (hrun : runLabels s ls = some s') (hret : s'.runPc = .returned) : s'.runErr = .killed

  counterexamples (examples at the end of this file): (1) the context is cancelled, then
  `initTerminal` fails, or the cancel reader cannot be opened: the error is the start-up error;
  (2) the context is cancelled during the start-up while a goroutine is blocked sending an interrupt
  message (or the read loop holds a read error): when the loop begins its `select` may take that
  message instead of `ctx.Done()`, and the error is ErrInterrupted (the reader's error).  What holds
  for EVERY schedule is the theorem below; for the schedules of `C04_kill_during_startup` /
  `C04_cancel_during_startup` (nothing but the runtime's own steps) the error IS ErrProgramKilled. -/

/-- CANCELLED BEFORE THE LOOP BEGAN. If the context is cancelled while Run is still starting up
(Kill(), cancellation of the supplied context), then in every later state of every schedule in
which Run has returned its error is ErrProgramKilled - unless the start-up failed afterwards (the
start-up error), or the loop took an interrupt message / a read error in spite of the cancelled
context (ErrInterrupted / the reader's error).  In particular it is never nil: a quit that is
received after the cancellation gives ErrProgramKilled. -/
theorem C04_startup_kill_error_partial (c : Config) (s : St) (hr : Reachable c s) (p : StartPc)
    (_hp : s.runPc = .starting p) (hctx : s.ctxDone = true) (ls : List Label) (s' : St)
    (hrun : runLabels s ls = some s') (hret : s'.runPc = .returned) :
    (s'.runErr = .killed ∨ (s'.runErr = .startup ∧ s'.el = .notStarted) ∨
     (s'.runErr = .interrupted ∧ s'.el = .exited .interrupt) ∨
     (s'.runErr = .reader ∧ s'.el = .exited .readErr)) ∧ s'.runErr ≠ .nil := by
  have h0 : StruckEarly s := ⟨hctx, fun h => by rcases h with h | h <;> rw [h] at _hp <;> cases _hp⟩
  have h := (struckEarly_runLabels ls hr hrun h0).2 (Or.inr hret)
  refine ⟨h, ?_⟩
  rcases h with h | ⟨h, _⟩ | ⟨h, _⟩ | ⟨h, _⟩ <;> rw [h] <;> decide

/-- THE TERMINAL MODES ARE RESTORED WHEN RUN RETURNS. `modesDirty` says that mode sequences (alt
screen, mouse, bracketed paste, focus) were written after the last `restoreTerminalState`: by the
start-up, or by the RestoreTerminal of an Exec.  A Kill() that strikes early restores BEFORE Run
writes them; a Kill() that strikes during an Exec restores before the Exec's RestoreTerminal writes
them AGAIN (its restore is then too early to undo them); yet for every interleaving with any number
of killers, wherever the cause struck - during the start-up, during an Exec, in the loop -: (1) when
Run returns through `runReturn` nothing is outstanding - Run's own restore comes after the end of
the loop, hence after every write of an Exec, and is the last writer -; (2) nothing is outstanding
in ANY reachable state in which Run has returned (after a failed `initTerminal` nothing had been
written) and (3) in any state that follows. -/
theorem C04_exec_restored_at_return (c : Config) (s : St) (hr : Reachable c s) :
    (∀ s', step s .runReturn = some s' → s'.modesDirty = false) ∧
    (s.runPc = .returned → s.modesDirty = false) ∧
    (s.runPc = .returned → ∀ ls s', runLabels s ls = some s' → s'.runPc = .returned ∧ s'.modesDirty = false) := by
  refine ⟨fun s' hs => ?_, (inv_modes hr).returned, fun hret ls s' hrun => ?_⟩
  · refine (inv_modes (Reachable.step _ hr hs)).returned ?_
    simp only [step] at hs
    split at hs
    · cases hs; rfl
    · cases hs
  · have hret' := returned_runLabels ls hrun hret
    exact ⟨hret', (inv_modes (reachable_runLabels ls hr hrun)).returned hret'⟩

/-- the statement of the start-up round, a corollary (the same statement: `Reachable` now ranges over
the schedules with Execs as well) -/
theorem C04_restored_after_startup_strike (c : Config) (s : St) (hr : Reachable c s) :
    (∀ s', step s .runReturn = some s' → s'.modesDirty = false) ∧
    (s.runPc = .returned → s.modesDirty = false) ∧
    (s.runPc = .returned → ∀ ls s', runLabels s ls = some s' → s'.runPc = .returned ∧ s'.modesDirty = false) :=
  C04_exec_restored_at_return c s hr

/-- NO HAND-OVER WITHOUT A LISTENER. `shRenderer` is `halt()` (inside `renderer.stop()` / `kill()`).
Whoever has reached the renderer phase of its shutdown - Run itself or a Kill() - NEVER waits there
unless the listen goroutine is inside the user's writer (`listen = .flushing`; and then the renderer
exists): the step is disabled exactly in that case.  In particular it is enabled in every stage of
the start-up before `renderer.start()`, where the listen goroutine does not exist yet.

This is the defect that was repaired.  With the old handshake - `r.once.Do(func() { r.done <-
struct{}{} })` on the unbuffered channel `done`, no `listening` flag - the step was NOT enabled
there: a Kill() that arrived while Run was still starting up blocked in the send, because nobody was
receiving; and when Run's later `start()` created the listen goroutine, that goroutine took the
stale `done` and returned at once, so the renderer never painted and the following shutdown / the
blocked Kill crashed the process.  `halt()` now looks at `listening` under `listenMtx` and does
nothing when the renderer is not running. -/
theorem C04_no_handover_without_listener (c : Config) (s : St) (hr : Reachable c s) (who : Option Nat)
    (hph : phaseOf s who = some .renderer) :
    (step s (.shRenderer who) = none ↔ (s.rendererMade = true ∧ s.listen = .flushing)) ∧
    (s.listen ≠ .flushing → (step s (.shRenderer who)).isSome = true) ∧
    (∀ p, s.runPc = .starting p →
      (p = .sigHandler ∨ p = .newRenderer ∨ p = .modeWrites ∨ p = .startRenderer) →
      s.listen = .notStarted ∧ (step s (.shRenderer who)).isSome = true) := by
  refine ⟨shRenderer_disabled_iff s who hph, shRenderer_enabled s who hph, fun p hp hb => ?_⟩
  have hb' : p.beforeStart = true := by rcases hb with h | h | h | h <;> rw [h] <;> rfl
  exact ⟨(inv_start hr).early p hp hb', shRenderer_enabled_early hr p hp hb' who hph⟩

/-! ### 6. an Exec in progress: strikes while the terminal is released -/

/-- the fault-free Exec of the message of sender `e` -/
theorem execSchedule_def (e : Nat) (wait : Label) : execSchedule e wait =
    [.elRecvSender e, .exRelCancel, wait, .exRelRenderer, .exRelRestore, .execCmdReturns, .exResReader,
     .exResRenderer, .exResSpawn] := rfl

/-- KILL() DURING AN EXEC. In every reachable state with the loop at its `select` and an Exec message
(sender `e`) to receive, start the fault-free Exec schedule - the wait for the read loop ending by
the 500 ms timeout or by the read loop's exit -; after ANY prefix of it that can be run (`k = 0`:
before the message is received; `1..4`: inside ReleaseTerminal; `5`: the command runs; `6..8`:
inside RestoreTerminal; `9`: Update has the execMsg) a Kill() (or a panic handler on a command
goroutine) is enabled, and after it a schedule of at most `rank + pendW` steps - progress steps and
the returns of the user code in progress or still to be called (the command, Update), each enabled
in turn - brings Run to its return, with ErrProgramKilled and no mode sequence outstanding. -/
theorem C04_kill_during_exec (c : Config) (s : St) (hr : Reachable c s) (hsel : s.el = .select)
    (e : Nat) (cl : Caller) (he : s.senders[e]? = some cl) (hk : cl.kind = .exec)
    (wait : Label) (hw : wait = .exRelWaitTimeout ∨ wait = .exRelWaitRead) (k : Nat) (sk : St)
    (hrun : runLabels s ((execSchedule e wait).take k) = some sk) :
    ∃ s1, step sk .killCall = some s1 ∧
      ∃ ls s', (∀ l ∈ ls, scheduleLabel l = true) ∧ ls.length ≤ rank s1 + pendW s1 ∧
        runLabels s1 ls = some s' ∧ s'.runPc = .returned ∧ s'.runErr = .killed ∧
        s'.modesDirty = false := by
  obtain ⟨s1, h1, ls, s', a, b, c', d, e'⟩ := strike_during_exec hr hsel he hk wait hw k hrun .killCall rfl
  have hr' := reachable_runLabels ls (Reachable.step _ (reachable_runLabels _ hr hrun) h1) c'
  exact ⟨s1, h1, ls, s', a, b, c', d, e', (inv_modes hr').returned d⟩

/-- CANCELLATION DURING AN EXEC. The same for the cancellation of the supplied context. -/
theorem C04_cancel_during_exec (c : Config) (s : St) (hr : Reachable c s) (hsel : s.el = .select)
    (e : Nat) (cl : Caller) (he : s.senders[e]? = some cl) (hk : cl.kind = .exec)
    (wait : Label) (hw : wait = .exRelWaitTimeout ∨ wait = .exRelWaitRead) (k : Nat) (sk : St)
    (hrun : runLabels s ((execSchedule e wait).take k) = some sk) :
    ∃ s1, step sk .parentCancel = some s1 ∧
      ∃ ls s', (∀ l ∈ ls, scheduleLabel l = true) ∧ ls.length ≤ rank s1 + pendW s1 ∧
        runLabels s1 ls = some s' ∧ s'.runPc = .returned ∧ s'.runErr = .killed ∧
        s'.modesDirty = false := by
  obtain ⟨s1, h1, ls, s', a, b, c', d, e'⟩ :=
    strike_during_exec hr hsel he hk wait hw k hrun .parentCancel rfl
  have hr' := reachable_runLabels ls (Reachable.step _ (reachable_runLabels _ hr hrun) h1) c'
  exact ⟨s1, h1, ls, s', a, b, c', d, e', (inv_modes hr').returned d⟩

/-- ... and every prefix of the Exec schedule CAN be run when the message is waiting in Send and the
renderer is listening (`C17_lts_exec_roundtrip` in Tea/Props/C17.lean says what each point looks like) -/
theorem C04_exec_schedule_enabled (c : Config) (s : St) (hr : Reachable c s) (hsel : s.el = .select)
    (hli : s.listen = .idle) (e : Nat) (cl : Caller) (he : s.senders[e]? = some cl)
    (hk : cl.kind = .exec) (hb : cl.pc = .blocked) (k : Nat) :
    ∃ sk, runLabels s ((execSchedule e).take k) = some sk := by
  obtain ⟨_, sf, _, _, hrun, _, _⟩ := exec_roundtrip hr hsel hli he hk hb
  obtain ⟨sk, a, _⟩ := runLabels_take _ hrun k
  exact ⟨sk, a⟩

/-- the panic of the command of an Exec is a panic on the loop's goroutine: ErrProgramKilled -/
theorem C04_exec_panic (c : Config) (s s' : St) (hr : Reachable c s) (hs : step s .execCmdPanics = some s') :
    s'.el = .exited .panic ∧ Terminating s' ∧
    ∀ ls s'', runLabels s' ls = some s'' → s''.runPc ≠ .loop → s''.runErr = .killed := by
  have hel : s'.el = .exited .panic := by
    simp only [step] at hs
    split at hs
    · cases hs; rfl
    · cases hs
  refine ⟨hel, Or.inr (Or.inl ⟨_, hel⟩), fun ls s'' hrun hnl => ?_⟩
  have hr'' := reachable_runLabels ls (Reachable.step _ hr hs) hrun
  have hel'' : s''.el = .exited .panic := el_exited_runLabels ls hrun hel
  obtain ⟨b, h2, _⟩ := err_of_exited hr'' hnl hel''
  exact h2

/-! ### 7. non-vacuity -/

/-- a program with a signal handler, a resize listener, a cancelable input, one user Send and
one Quit() caller, and two Wait callers -/
def cfg : Config :=
  { cancelable := true, withSignalHandler := true, ignoreSignals := false, withResize := true,
    withInitCmd := false, withInput := true, senders := [.user, .quit], waiters := 2 }

/-- what the examples look at -/
def obs (s : St) : RunPc × ErrClass × Nat × Bool := (s.runPc, s.runErr, s.restores, s.finishedClosed)

/-- Kill() while Update is in progress, then Update returns: the loop sees the cancelled
context instead of blocking on the command hand-over, both shutdown calls (Kill's and Run's)
complete, the terminal is restored by both, Run returns ErrProgramKilled -/
def killDuringUpdate : List Label :=
  [.sendCall 0, .elRecvSender 0, .killCall, .shCancel (some 0), .callbackReturns, .elCmdAbort,
   .runTail, .shCancel none, .dispExit, .sigExit, .resizeExit, .shHandlers none,
   .shHandlers (some 0), .shReader none, .shReader (some 0), .shRenderer none,
   .shRenderer (some 0), .shRestore none, .shRestore (some 0), .runReturn]

example : (runLabels (init cfg) killDuringUpdate).map obs = some (.returned, .killed, 2, true) := by
  decide

/-- SIGINT racing a queued Quit(): the quit wins, the signal handler, blocked handing over its
interrupt message, takes `sigAbort` when the context is cancelled; Run returns nil -/
def sigintLosesToQuit : List Label :=
  [.sendCall 1, .signal true, .elRecvSender 1, .runTail, .shCancel none, .sigAbort, .dispExit,
   .resizeExit, .shHandlers none, .shReader none, .readerCanceled, .shWaitRead none,
   .shRenderer none, .shRestore none, .runReturn]

example : (runLabels (init cfg) sigintLosesToQuit).map obs = some (.returned, .nil, 1, true) := by
  decide

/-- the state just after Kill()'s `cancel()` with Update still running is reachable,
terminating, has Run in its loop - and as soon as Update returns the hypotheses of
`C04_no_deadlock` / `C04_run_returns` hold -/
example : ∃ s, Reachable cfg s ∧ Terminating s ∧ NoCallback s ∧ s.runPc = .loop ∧ s.el = .cmdSend ∧
    rank s = 18 := by
  obtain ⟨s, hs⟩ : ∃ s, runLabels (init cfg) (killDuringUpdate.take 5) = some s :=
    Option.isSome_iff_exists.1 (by decide)
  have h : (runLabels (init cfg) (killDuringUpdate.take 5)).map
      (fun s => (s.ctxDone, s.el, s.listen, s.runPc, rank s)) = some (true, .cmdSend, .idle, .loop, 18) := by
    decide
  rw [hs] at h
  simp only [Option.map_some, Option.some.injEq, Prod.mk.injEq] at h
  obtain ⟨h1, h2, h3, h4, h5⟩ := h
  refine ⟨s, reachable_runLabels _ Reachable.init hs, Or.inl h1, ?_, h4, h2, h5⟩
  simp [NoCallback, h2, h3, h4]

/-- the interrupt wins the race instead: ErrInterrupted -/
example : (runLabels (init cfg)
    [.signal true, .elRecvSig, .runTail, .shCancel none, .dispExit, .resizeExit, .shHandlers none,
     .shReader none, .shRenderer none, .shRestore none, .runReturn]).map obs
    = some (.returned, .interrupted, 1, true) := by
  decide

/-- a read error ends the program with the reader's error; EOF (second example) does not end
it: afterwards nothing but the read loop has changed and no termination step is enabled -/
example : (runLabels (init cfg)
    [.readError, .elRecvErr, .runTail, .shCancel none, .dispExit, .sigExit, .resizeExit,
     .shHandlers none, .shReader none, .shRenderer none, .shRestore none,
     .runReturn]).map obs = some (.returned, .reader, 1, true) := by
  decide

example : (runLabels (init cfg) [.readEOF]).map (fun s => (s.el, s.ctxDone, s.runPc, s.killers, s.reader))
    = some (.select, false, .loop, [], .exited) ∧
    (runLabels (init cfg) [.readEOF, .elCtxExit]).isSome = false ∧
    (runLabels (init cfg) [.readEOF, .runTail]).isSome = false := by
  decide

/-! ### 8. non-vacuity: the start-up -/

/-- a program with a cancelable input, an Init command, a signal handler and a resize listener -/
def cfgS : Config :=
  { cancelable := true, withSignalHandler := true, ignoreSignals := false, withResize := true,
    withInitCmd := true, withInput := true, senders := [.user, .quit], waiters := 2 }

/-- what the start-up examples look at: Run, its error, the number of restores, outstanding modes -/
def obsS (s : St) : RunPc × ErrClass × Nat × Bool := (s.runPc, s.runErr, s.restores, s.modesDirty)

/-- the fault-free start-up of this program: the loop begins, everything is running -/
example :
    (runLabels (init0 cfgS) startupSchedule).map (fun s => (s.runPc, s.el, s.sig, s.resize, s.initG))
      = some (.loop, .select, .waiting, .waiting, .waiting) ∧
    (runLabels (init0 cfgS) startupSchedule).map (fun s => (s.reader, s.listen, s.dispAlive, s.modesDirty))
      = some (.reading, .idle, true, true) := by decide

/-! Kill() at each of the nine stages.  In these runs Kill's own shutdown runs to its END at once -
through the renderer phase while the renderer has not been created / not been started (the
scenario of the repaired defect) and through a restore that comes before Run has written its mode
sequences -, then Run finishes its start-up (the handlers it spawns leave at once: the context is
cancelled), enters its loop, sees the cancelled context, shuts down, restores and returns
ErrProgramKilled: two restores, no mode outstanding. -/

/-- Kill() when Run is at stage `sigHandler` (after 0 steps of the fault-free start-up) -/
example : (runLabels (init0 cfgS) (startupSchedule.take 0)).map (·.runPc) = some (.starting .sigHandler) ∧
    (runLabels (init0 cfgS) (startupSchedule.take 0 ++ .killCall ::
     [.shCancel (some 0), .shHandlers (some 0), .shReader (some 0), .shRenderer (some 0),
      .shRestore (some 0), .suSigHandler, .sigExit, .suNewRenderer, .startWriterReturns,
      .suStartRenderer, .initReturns, .suSpawnInit, .initAbort, .firstViewReturns, .suOpenReader,
      .suSpawnHandlers, .resizeExit, .dispExit, .elCtxExit, .runTail, .shCancel none,
      .shHandlers none, .shReader none, .readerCanceled, .shRenderer none, .shRestore none,
      .runReturn])).map obsS
    = some (.returned, .killed, 2, false) := by decide

/-- Kill() when Run is at stage `newRenderer` (after 1 steps of the fault-free start-up) -/
example : (runLabels (init0 cfgS) (startupSchedule.take 1)).map (·.runPc) = some (.starting .newRenderer) ∧
    (runLabels (init0 cfgS) (startupSchedule.take 1 ++ .killCall ::
     [.shCancel (some 0), .sigExit, .shHandlers (some 0), .shReader (some 0), .shRenderer (some 0),
      .shRestore (some 0), .suNewRenderer, .startWriterReturns, .suStartRenderer, .initReturns,
      .suSpawnInit, .initAbort, .firstViewReturns, .suOpenReader, .suSpawnHandlers, .resizeExit,
      .dispExit, .elCtxExit, .runTail, .shCancel none, .shHandlers none, .shReader none,
      .readerCanceled, .shRenderer none, .shRestore none, .runReturn])).map obsS
    = some (.returned, .killed, 2, false) := by decide

/-- Kill() when Run is at stage `modeWrites` (after 2 steps of the fault-free start-up) -/
example : (runLabels (init0 cfgS) (startupSchedule.take 2)).map (·.runPc) = some (.starting .modeWrites) ∧
    (runLabels (init0 cfgS) (startupSchedule.take 2 ++ .killCall ::
     [.shCancel (some 0), .sigExit, .shHandlers (some 0), .shReader (some 0), .shRenderer (some 0),
      .shRestore (some 0), .startWriterReturns, .suStartRenderer, .initReturns, .suSpawnInit,
      .initAbort, .firstViewReturns, .suOpenReader, .suSpawnHandlers, .resizeExit, .dispExit,
      .elCtxExit, .runTail, .shCancel none, .shHandlers none, .shReader none, .readerCanceled,
      .shRenderer none, .shRestore none, .runReturn])).map obsS
    = some (.returned, .killed, 2, false) := by decide

/-- Kill() when Run is at stage `startRenderer` (after 3 steps of the fault-free start-up) -/
example : (runLabels (init0 cfgS) (startupSchedule.take 3)).map (·.runPc) = some (.starting .startRenderer) ∧
    (runLabels (init0 cfgS) (startupSchedule.take 3 ++ .killCall ::
     [.shCancel (some 0), .sigExit, .shHandlers (some 0), .shReader (some 0), .shRenderer (some 0),
      .shRestore (some 0), .suStartRenderer, .initReturns, .suSpawnInit, .initAbort,
      .firstViewReturns, .suOpenReader, .suSpawnHandlers, .resizeExit, .dispExit, .elCtxExit,
      .runTail, .shCancel none, .shHandlers none, .shReader none, .readerCanceled,
      .shRenderer none, .shRestore none, .runReturn])).map obsS
    = some (.returned, .killed, 2, false) := by decide

/-- Kill() when Run is at stage `initCall` (after 4 steps of the fault-free start-up) -/
example : (runLabels (init0 cfgS) (startupSchedule.take 4)).map (·.runPc) = some (.starting .initCall) ∧
    (runLabels (init0 cfgS) (startupSchedule.take 4 ++ .killCall ::
     [.shCancel (some 0), .sigExit, .shHandlers (some 0), .shReader (some 0), .shRenderer (some 0),
      .shRestore (some 0), .initReturns, .suSpawnInit, .initAbort, .firstViewReturns,
      .suOpenReader, .suSpawnHandlers, .resizeExit, .dispExit, .elCtxExit, .runTail,
      .shCancel none, .shHandlers none, .shReader none, .readerCanceled, .shRenderer none,
      .shRestore none, .runReturn])).map obsS
    = some (.returned, .killed, 2, false) := by decide

/-- Kill() when Run is at stage `spawnInit` (after 5 steps of the fault-free start-up) -/
example : (runLabels (init0 cfgS) (startupSchedule.take 5)).map (·.runPc) = some (.starting .spawnInit) ∧
    (runLabels (init0 cfgS) (startupSchedule.take 5 ++ .killCall ::
     [.shCancel (some 0), .sigExit, .shHandlers (some 0), .shReader (some 0), .shRenderer (some 0),
      .shRestore (some 0), .suSpawnInit, .initAbort, .firstViewReturns, .suOpenReader,
      .suSpawnHandlers, .resizeExit, .dispExit, .elCtxExit, .runTail, .shCancel none,
      .shHandlers none, .shReader none, .readerCanceled, .shRenderer none, .shRestore none,
      .runReturn])).map obsS
    = some (.returned, .killed, 2, false) := by decide

/-- Kill() when Run is at stage `firstView` (after 6 steps of the fault-free start-up) -/
example : (runLabels (init0 cfgS) (startupSchedule.take 6)).map (·.runPc) = some (.starting .firstView) ∧
    (runLabels (init0 cfgS) (startupSchedule.take 6 ++ .killCall ::
     [.shCancel (some 0), .sigExit, .initAbort, .shHandlers (some 0), .shReader (some 0),
      .shRenderer (some 0), .shRestore (some 0), .firstViewReturns, .suOpenReader,
      .suSpawnHandlers, .resizeExit, .dispExit, .elCtxExit, .runTail, .shCancel none,
      .shHandlers none, .shReader none, .readerCanceled, .shRenderer none, .shRestore none,
      .runReturn])).map obsS
    = some (.returned, .killed, 2, false) := by decide

/-- Kill() when Run is at stage `openReader` (after 7 steps of the fault-free start-up) -/
example : (runLabels (init0 cfgS) (startupSchedule.take 7)).map (·.runPc) = some (.starting .openReader) ∧
    (runLabels (init0 cfgS) (startupSchedule.take 7 ++ .killCall ::
     [.shCancel (some 0), .sigExit, .initAbort, .shHandlers (some 0), .shReader (some 0),
      .shRenderer (some 0), .shRestore (some 0), .suOpenReader, .suSpawnHandlers, .resizeExit,
      .dispExit, .elCtxExit, .runTail, .shCancel none, .shHandlers none, .shReader none,
      .readerCanceled, .shRenderer none, .shRestore none, .runReturn])).map obsS
    = some (.returned, .killed, 2, false) := by decide

/-- Kill() when Run is at stage `spawnHandlers` (after 8 steps of the fault-free start-up) -/
example : (runLabels (init0 cfgS) (startupSchedule.take 8)).map (·.runPc) = some (.starting .spawnHandlers) ∧
    (runLabels (init0 cfgS) (startupSchedule.take 8 ++ .killCall ::
     [.shCancel (some 0), .sigExit, .initAbort, .shHandlers (some 0), .shReader (some 0),
      .shRenderer (some 0), .shRestore (some 0), .suSpawnHandlers, .resizeExit, .dispExit,
      .elCtxExit, .runTail, .shCancel none, .shHandlers none, .shReader none, .readerCanceled,
      .shRenderer none, .shRestore none, .runReturn])).map obsS
    = some (.returned, .killed, 2, false) := by decide

/-! The supplied context is cancelled at each of the nine stages: Run finishes its start-up, the
loop sees the cancelled context at once; one restore (Run's own). -/

/-- cancellation when Run is at stage `sigHandler` (after 0 steps of the fault-free start-up) -/
example : (runLabels (init0 cfgS) (startupSchedule.take 0)).map (·.runPc) = some (.starting .sigHandler) ∧
    (runLabels (init0 cfgS) (startupSchedule.take 0 ++ .parentCancel ::
     [.suSigHandler, .sigExit, .suNewRenderer, .startWriterReturns, .suStartRenderer, .initReturns,
      .suSpawnInit, .initAbort, .firstViewReturns, .suOpenReader, .suSpawnHandlers, .resizeExit,
      .dispExit, .elCtxExit, .runTail, .shCancel none, .shHandlers none, .shReader none,
      .readerCanceled, .shRenderer none, .shRestore none, .runReturn])).map obsS
    = some (.returned, .killed, 1, false) := by decide

/-- cancellation when Run is at stage `newRenderer` (after 1 steps of the fault-free start-up) -/
example : (runLabels (init0 cfgS) (startupSchedule.take 1)).map (·.runPc) = some (.starting .newRenderer) ∧
    (runLabels (init0 cfgS) (startupSchedule.take 1 ++ .parentCancel ::
     [.sigExit, .suNewRenderer, .startWriterReturns, .suStartRenderer, .initReturns, .suSpawnInit,
      .initAbort, .firstViewReturns, .suOpenReader, .suSpawnHandlers, .resizeExit, .dispExit,
      .elCtxExit, .runTail, .shCancel none, .shHandlers none, .shReader none, .readerCanceled,
      .shRenderer none, .shRestore none, .runReturn])).map obsS
    = some (.returned, .killed, 1, false) := by decide

/-- cancellation when Run is at stage `modeWrites` (after 2 steps of the fault-free start-up) -/
example : (runLabels (init0 cfgS) (startupSchedule.take 2)).map (·.runPc) = some (.starting .modeWrites) ∧
    (runLabels (init0 cfgS) (startupSchedule.take 2 ++ .parentCancel ::
     [.sigExit, .startWriterReturns, .suStartRenderer, .initReturns, .suSpawnInit, .initAbort,
      .firstViewReturns, .suOpenReader, .suSpawnHandlers, .resizeExit, .dispExit, .elCtxExit,
      .runTail, .shCancel none, .shHandlers none, .shReader none, .readerCanceled,
      .shRenderer none, .shRestore none, .runReturn])).map obsS
    = some (.returned, .killed, 1, false) := by decide

/-- cancellation when Run is at stage `startRenderer` (after 3 steps of the fault-free start-up) -/
example : (runLabels (init0 cfgS) (startupSchedule.take 3)).map (·.runPc) = some (.starting .startRenderer) ∧
    (runLabels (init0 cfgS) (startupSchedule.take 3 ++ .parentCancel ::
     [.sigExit, .suStartRenderer, .initReturns, .suSpawnInit, .initAbort, .firstViewReturns,
      .suOpenReader, .suSpawnHandlers, .resizeExit, .dispExit, .elCtxExit, .runTail,
      .shCancel none, .shHandlers none, .shReader none, .readerCanceled, .shRenderer none,
      .shRestore none, .runReturn])).map obsS
    = some (.returned, .killed, 1, false) := by decide

/-- cancellation when Run is at stage `initCall` (after 4 steps of the fault-free start-up) -/
example : (runLabels (init0 cfgS) (startupSchedule.take 4)).map (·.runPc) = some (.starting .initCall) ∧
    (runLabels (init0 cfgS) (startupSchedule.take 4 ++ .parentCancel ::
     [.sigExit, .initReturns, .suSpawnInit, .initAbort, .firstViewReturns, .suOpenReader,
      .suSpawnHandlers, .resizeExit, .dispExit, .elCtxExit, .runTail, .shCancel none,
      .shHandlers none, .shReader none, .readerCanceled, .shRenderer none, .shRestore none,
      .runReturn])).map obsS
    = some (.returned, .killed, 1, false) := by decide

/-- cancellation when Run is at stage `spawnInit` (after 5 steps of the fault-free start-up) -/
example : (runLabels (init0 cfgS) (startupSchedule.take 5)).map (·.runPc) = some (.starting .spawnInit) ∧
    (runLabels (init0 cfgS) (startupSchedule.take 5 ++ .parentCancel ::
     [.sigExit, .suSpawnInit, .initAbort, .firstViewReturns, .suOpenReader, .suSpawnHandlers,
      .resizeExit, .dispExit, .elCtxExit, .runTail, .shCancel none, .shHandlers none,
      .shReader none, .readerCanceled, .shRenderer none, .shRestore none, .runReturn])).map obsS
    = some (.returned, .killed, 1, false) := by decide

/-- cancellation when Run is at stage `firstView` (after 6 steps of the fault-free start-up) -/
example : (runLabels (init0 cfgS) (startupSchedule.take 6)).map (·.runPc) = some (.starting .firstView) ∧
    (runLabels (init0 cfgS) (startupSchedule.take 6 ++ .parentCancel ::
     [.sigExit, .initAbort, .firstViewReturns, .suOpenReader, .suSpawnHandlers, .resizeExit,
      .dispExit, .elCtxExit, .runTail, .shCancel none, .shHandlers none, .shReader none,
      .readerCanceled, .shRenderer none, .shRestore none, .runReturn])).map obsS
    = some (.returned, .killed, 1, false) := by decide

/-- cancellation when Run is at stage `openReader` (after 7 steps of the fault-free start-up) -/
example : (runLabels (init0 cfgS) (startupSchedule.take 7)).map (·.runPc) = some (.starting .openReader) ∧
    (runLabels (init0 cfgS) (startupSchedule.take 7 ++ .parentCancel ::
     [.sigExit, .initAbort, .suOpenReader, .suSpawnHandlers, .resizeExit, .dispExit, .elCtxExit,
      .runTail, .shCancel none, .shHandlers none, .shReader none, .readerCanceled,
      .shRenderer none, .shRestore none, .runReturn])).map obsS
    = some (.returned, .killed, 1, false) := by decide

/-- cancellation when Run is at stage `spawnHandlers` (after 8 steps of the fault-free start-up) -/
example : (runLabels (init0 cfgS) (startupSchedule.take 8)).map (·.runPc) = some (.starting .spawnHandlers) ∧
    (runLabels (init0 cfgS) (startupSchedule.take 8 ++ .parentCancel ::
     [.sigExit, .initAbort, .suSpawnHandlers, .resizeExit, .dispExit, .elCtxExit, .runTail,
      .shCancel none, .shHandlers none, .shReader none, .readerCanceled, .shRenderer none,
      .shRestore none, .runReturn])).map obsS
    = some (.returned, .killed, 1, false) := by decide

/-- the renderer phase of a Kill() that strikes before the renderer exists / before its listen
goroutine exists is enabled (stages `sigHandler` and `startRenderer`); with the listen goroutine
inside the user's writer it waits, and goes on when the writer returns -/
example :
    (runLabels (init0 cfgS) [.killCall, .shCancel (some 0), .shHandlers (some 0), .shReader (some 0)]).map
      (fun s => (s.rendererMade, s.listen, (step s (.shRenderer (some 0))).isSome)) = some (false, .notStarted, true) ∧
    (runLabels (init0 cfgS) (startupSchedule.take 3 ++
        [.killCall, .shCancel (some 0), .sigExit, .shHandlers (some 0), .shReader (some 0)])).map
      (fun s => (s.rendererMade, s.listen, (step s (.shRenderer (some 0))).isSome)) = some (true, .notStarted, true) ∧
    (runLabels (init0 cfgS) (startupSchedule.take 4 ++
        [.tick, .killCall, .shCancel (some 0), .sigExit, .shHandlers (some 0), .shReader (some 0)])).map
      (fun s => (s.listen, (step s (.shRenderer (some 0))).isSome)) = some (.flushing, false) ∧
    (runLabels (init0 cfgS) (startupSchedule.take 4 ++
        [.tick, .killCall, .shCancel (some 0), .sigExit, .shHandlers (some 0), .shReader (some 0),
         .writerReturns])).map
      (fun s => (s.listen, (step s (.shRenderer (some 0))).isSome)) = some (.idle, true) := by decide

/-- the four failures of the start-up.  `initTerminal` fails: Run returns at once, no shutdown, no
restore, nothing outstanding, `finished` closed and the context cancelled by the deferred calls -/
example : (runLabels (init0 cfgS) [.suSigHandler, .suNewRenderer, .startTermFails]).map
    (fun s => (obsS s, s.finishedClosed && s.ctxDone)) = some ((.returned, .startup, 0, false), true) := by
  decide

/-- Init panics: shutdown(true), ErrProgramKilled -/
example : (runLabels (init0 cfgS) (startupSchedule.take 4 ++
    [.initPanics, .shCancel none, .sigExit, .shHandlers none, .shReader none, .shRenderer none,
     .shRestore none, .runReturn])).map obsS = some (.returned, .killed, 1, false) := by decide

/-- the first View panics: the same (the Init hand-over goroutine leaves at the cancellation) -/
example : (runLabels (init0 cfgS) (startupSchedule.take 6 ++
    [.firstViewPanics, .shCancel none, .sigExit, .initAbort, .shHandlers none, .shReader none,
     .shRenderer none, .shRestore none, .runReturn])).map obsS = some (.returned, .killed, 1, false) := by
  decide

/-- the cancel reader cannot be opened: shutdown(true), the start-up error (the mode sequences HAD
been written: Run's shutdown restores) -/
example : (runLabels (init0 cfgS) (startupSchedule.take 7 ++
    [.startReaderFails, .shCancel none, .sigExit, .initAbort, .shHandlers none, .shReader none,
     .shRenderer none, .shRestore none, .runReturn])).map obsS = some (.returned, .startup, 1, false) := by
  decide

/-- the counterexamples to the statements that are false in the extended model:
(1) `C04_error_class`, `C04_tail_after_loop`: Run has returned, the loop never began;
(2) `C04_startup_kill_error`: the context is cancelled during the start-up, then `initTerminal`
fails: the start-up error, not ErrProgramKilled;
(3) `C04_startup_kill_error`: the context is cancelled during the start-up while an interrupt
message is waiting in Send; the loop's `select` takes the message: ErrInterrupted;
(4) `C04_run_returns`: after a Kill() at Run's entry, the runtime's own steps stop inside the user's
writer: no progress step is enabled, Run has not returned -/
example :
    (runLabels (init0 cfgS) [.suSigHandler, .suNewRenderer, .startTermFails]).map
      (fun s => (s.runPc, s.el, s.runErr)) = some (.returned, .notStarted, .startup) ∧
    (runLabels (init0 cfgS) [.parentCancel, .suSigHandler, .suNewRenderer, .startTermFails]).map
      (fun s => (s.runPc, s.ctxDone, s.runErr)) = some (.returned, true, .startup) ∧
    (runLabels (init0 { cfgS with senders := [.interrupt] })
      ([.sendCall 0, .parentCancel] ++ startupSchedule ++
       [.elRecvSender 0, .runTail, .shCancel none, .dispExit, .sigExit, .resizeExit, .initAbort,
        .shHandlers none, .shReader none, .shRenderer none, .shRestore none, .runReturn])).map
      (fun s => (s.runPc, s.ctxDone, s.runErr)) = some (.returned, true, .interrupted) ∧
    (runLabels (init0 cfgS) [.killCall, .suSigHandler, .suNewRenderer, .shCancel (some 0), .sigExit,
        .shHandlers (some 0), .shReader (some 0), .shRenderer (some 0), .shRestore (some 0)]).map
      (fun s => (s.runPc,
        (([.suSigHandler, .suNewRenderer, .suStartRenderer, .suSpawnInit, .suOpenReader, .suSpawnHandlers,
          .elCtxExit, .elCmdAbort, .runTail, .runReturn, .dispExit, .sigExit, .sigAbort, .resizeExit,
          .initAbort, .readerMsgAbort, .readerErrAbort, .readerCanceled] : List Label) ++
         [none, some 0].flatMap (fun w => [Label.shCancel w, .shHandlers w, .shReader w, .shWaitRead w,
           .shWaitReadTimeout w, .shRenderer w, .shRestore w])).all (fun l => (step s l).isNone)))
      = some (.starting .modeWrites, true) := by
  decide

/-! ### 9. non-vacuity: strikes during an Exec -/

/-- a program with an input (cancelable or not), a signal handler, a resize listener, an Exec message
and a Quit() caller -/
def cfgE (cancelable : Bool) : Config :=
  { cancelable := cancelable, withSignalHandler := true, ignoreSignals := false, withResize := true,
    withInitCmd := false, withInput := true, senders := [.exec, .quit], waiters := 0 }

/-- the Exec with a cancelable input: the read loop leaves at the Cancel(), ReleaseTerminal's wait
ends by its exit -/
def execRunC : List Label :=
  [.elRecvSender 0, .exRelCancel, .readerCanceled, .exRelWaitRead, .exRelRenderer, .exRelRestore,
   .execCmdReturns, .exResReader, .exResRenderer, .exResSpawn]

/-- the fault-free Exec of both programs; with the input that cannot be cancelled the old read loop
outlives the 500 ms and is leaked -/
example :
    (runLabels (init (cfgE true)) (.sendCall 0 :: execRunC)).map
      (fun s => (s.el, s.reader, s.listen, s.ignoreSignals, s.leakedReaders)) =
      some (.callback, .reading, .idle, false, 0) ∧
    (runLabels (init (cfgE false)) (.sendCall 0 :: execSchedule 0)).map
      (fun s => (s.el, s.reader, s.listen, s.ignoreSignals, s.leakedReaders)) =
      some (.callback, .reading, .idle, false, 1) := by decide

/-! Kill() at every point of the Exec, cancelable input.  Kill's own shutdown runs to its end at
once (it cancels the reader and halts the renderer itself if the Exec has not yet, and restores);
the loop goes on with its Exec - the command returns, RestoreTerminal starts a NEW read loop, the
renderer again, writes the mode sequences again -, Update returns, the loop sees the cancelled
context; Run's own shutdown stops all that again and restores: ErrProgramKilled, nothing outstanding. -/

/-- Kill() after 0 steps of the Exec (`el = .select`) -/
example : (runLabels (init (cfgE true)) (.sendCall 0 :: (execRunC).take 0)).map (·.el) = some (.select) ∧
    (runLabels (init (cfgE true)) (.sendCall 0 :: (execRunC).take 0 ++ .killCall ::
     [.shCancel (some 0), .sigExit, .resizeExit, .dispExit, .shHandlers (some 0),
      .shReader (some 0), .readerCanceled, .shRenderer (some 0), .shRestore (some 0), .elCtxExit,
      .runTail, .shCancel none, .shHandlers none, .shReader none, .shRenderer none,
      .shRestore none, .runReturn])).map obsS
    = some (.returned, .killed, 2, false) := by decide

/-- Kill() after 1 steps of the Exec (`el = .execRelease (.cancelReader)`) -/
example : (runLabels (init (cfgE true)) (.sendCall 0 :: (execRunC).take 1)).map (·.el) = some (.execRelease (.cancelReader)) ∧
    (runLabels (init (cfgE true)) (.sendCall 0 :: (execRunC).take 1 ++ .killCall ::
     [.shCancel (some 0), .sigExit, .resizeExit, .dispExit, .shHandlers (some 0),
      .shReader (some 0), .readerCanceled, .shRenderer (some 0), .shRestore (some 0), .exRelCancel,
      .exRelWaitRead, .exRelRenderer, .exRelRestore, .execCmdReturns, .exResReader, .exResRenderer,
      .exResSpawn, .callbackReturns, .elCmdAbort, .runTail, .shCancel none, .shHandlers none,
      .shReader none, .readerCanceled, .shRenderer none, .shRestore none, .runReturn])).map obsS
    = some (.returned, .killed, 3, false) := by decide

/-- Kill() after 2 steps of the Exec (`el = .execRelease (.waitRead)`) -/
example : (runLabels (init (cfgE true)) (.sendCall 0 :: (execRunC).take 2)).map (·.el) = some (.execRelease (.waitRead)) ∧
    (runLabels (init (cfgE true)) (.sendCall 0 :: (execRunC).take 2 ++ .killCall ::
     [.shCancel (some 0), .sigExit, .resizeExit, .dispExit, .readerCanceled, .shHandlers (some 0),
      .shReader (some 0), .shRenderer (some 0), .shRestore (some 0), .exRelWaitRead,
      .exRelRenderer, .exRelRestore, .execCmdReturns, .exResReader, .exResRenderer, .exResSpawn,
      .callbackReturns, .elCmdAbort, .runTail, .shCancel none, .shHandlers none, .shReader none,
      .readerCanceled, .shRenderer none, .shRestore none, .runReturn])).map obsS
    = some (.returned, .killed, 3, false) := by decide

/-- Kill() after 3 steps of the Exec (`el = .execRelease (.waitRead)`) -/
example : (runLabels (init (cfgE true)) (.sendCall 0 :: (execRunC).take 3)).map (·.el) = some (.execRelease (.waitRead)) ∧
    (runLabels (init (cfgE true)) (.sendCall 0 :: (execRunC).take 3 ++ .killCall ::
     [.shCancel (some 0), .sigExit, .resizeExit, .dispExit, .shHandlers (some 0),
      .shReader (some 0), .shRenderer (some 0), .shRestore (some 0), .exRelWaitRead,
      .exRelRenderer, .exRelRestore, .execCmdReturns, .exResReader, .exResRenderer, .exResSpawn,
      .callbackReturns, .elCmdAbort, .runTail, .shCancel none, .shHandlers none, .shReader none,
      .readerCanceled, .shRenderer none, .shRestore none, .runReturn])).map obsS
    = some (.returned, .killed, 3, false) := by decide

/-- Kill() after 4 steps of the Exec (`el = .execRelease (.renderer)`) -/
example : (runLabels (init (cfgE true)) (.sendCall 0 :: (execRunC).take 4)).map (·.el) = some (.execRelease (.renderer)) ∧
    (runLabels (init (cfgE true)) (.sendCall 0 :: (execRunC).take 4 ++ .killCall ::
     [.shCancel (some 0), .sigExit, .resizeExit, .dispExit, .shHandlers (some 0),
      .shReader (some 0), .shRenderer (some 0), .shRestore (some 0), .exRelRenderer, .exRelRestore,
      .execCmdReturns, .exResReader, .exResRenderer, .exResSpawn, .callbackReturns, .elCmdAbort,
      .runTail, .shCancel none, .shHandlers none, .shReader none, .readerCanceled,
      .shRenderer none, .shRestore none, .runReturn])).map obsS
    = some (.returned, .killed, 3, false) := by decide

/-- Kill() after 5 steps of the Exec (`el = .execRelease (.restore)`) -/
example : (runLabels (init (cfgE true)) (.sendCall 0 :: (execRunC).take 5)).map (·.el) = some (.execRelease (.restore)) ∧
    (runLabels (init (cfgE true)) (.sendCall 0 :: (execRunC).take 5 ++ .killCall ::
     [.shCancel (some 0), .sigExit, .resizeExit, .dispExit, .shHandlers (some 0),
      .shReader (some 0), .shRenderer (some 0), .shRestore (some 0), .exRelRestore,
      .execCmdReturns, .exResReader, .exResRenderer, .exResSpawn, .callbackReturns, .elCmdAbort,
      .runTail, .shCancel none, .shHandlers none, .shReader none, .readerCanceled,
      .shRenderer none, .shRestore none, .runReturn])).map obsS
    = some (.returned, .killed, 3, false) := by decide

/-- Kill() after 6 steps of the Exec (`el = .execCmd`) -/
example : (runLabels (init (cfgE true)) (.sendCall 0 :: (execRunC).take 6)).map (·.el) = some (.execCmd) ∧
    (runLabels (init (cfgE true)) (.sendCall 0 :: (execRunC).take 6 ++ .killCall ::
     [.shCancel (some 0), .sigExit, .resizeExit, .dispExit, .shHandlers (some 0),
      .shReader (some 0), .shRenderer (some 0), .shRestore (some 0), .execCmdReturns, .exResReader,
      .exResRenderer, .exResSpawn, .callbackReturns, .elCmdAbort, .runTail, .shCancel none,
      .shHandlers none, .shReader none, .readerCanceled, .shRenderer none, .shRestore none,
      .runReturn])).map obsS
    = some (.returned, .killed, 3, false) := by decide

/-- Kill() after 7 steps of the Exec (`el = .execRestore (.reader)`) -/
example : (runLabels (init (cfgE true)) (.sendCall 0 :: (execRunC).take 7)).map (·.el) = some (.execRestore (.reader)) ∧
    (runLabels (init (cfgE true)) (.sendCall 0 :: (execRunC).take 7 ++ .killCall ::
     [.shCancel (some 0), .sigExit, .resizeExit, .dispExit, .shHandlers (some 0),
      .shReader (some 0), .shRenderer (some 0), .shRestore (some 0), .exResReader, .exResRenderer,
      .exResSpawn, .callbackReturns, .elCmdAbort, .runTail, .shCancel none, .shHandlers none,
      .shReader none, .readerCanceled, .shRenderer none, .shRestore none, .runReturn])).map obsS
    = some (.returned, .killed, 3, false) := by decide

/-- Kill() after 8 steps of the Exec (`el = .execRestore (.renderer)`) -/
example : (runLabels (init (cfgE true)) (.sendCall 0 :: (execRunC).take 8)).map (·.el) = some (.execRestore (.renderer)) ∧
    (runLabels (init (cfgE true)) (.sendCall 0 :: (execRunC).take 8 ++ .killCall ::
     [.shCancel (some 0), .sigExit, .resizeExit, .dispExit, .shHandlers (some 0),
      .shReader (some 0), .readerCanceled, .shRenderer (some 0), .shRestore (some 0),
      .exResRenderer, .exResSpawn, .callbackReturns, .elCmdAbort, .runTail, .shCancel none,
      .shHandlers none, .shReader none, .shRenderer none, .shRestore none, .runReturn])).map obsS
    = some (.returned, .killed, 3, false) := by decide

/-- Kill() after 9 steps of the Exec (`el = .execRestore (.spawn)`) -/
example : (runLabels (init (cfgE true)) (.sendCall 0 :: (execRunC).take 9)).map (·.el) = some (.execRestore (.spawn)) ∧
    (runLabels (init (cfgE true)) (.sendCall 0 :: (execRunC).take 9 ++ .killCall ::
     [.shCancel (some 0), .sigExit, .resizeExit, .dispExit, .shHandlers (some 0),
      .shReader (some 0), .readerCanceled, .shRenderer (some 0), .shRestore (some 0), .exResSpawn,
      .callbackReturns, .elCmdAbort, .runTail, .shCancel none, .shHandlers none, .shReader none,
      .shRenderer none, .shRestore none, .runReturn])).map obsS
    = some (.returned, .killed, 3, false) := by decide

/-- Kill() after 10 steps of the Exec (`el = .callback`) -/
example : (runLabels (init (cfgE true)) (.sendCall 0 :: (execRunC).take 10)).map (·.el) = some (.callback) ∧
    (runLabels (init (cfgE true)) (.sendCall 0 :: (execRunC).take 10 ++ .killCall ::
     [.shCancel (some 0), .sigExit, .resizeExit, .dispExit, .shHandlers (some 0),
      .shReader (some 0), .readerCanceled, .shRenderer (some 0), .shRestore (some 0),
      .callbackReturns, .elCmdAbort, .runTail, .shCancel none, .shHandlers none, .shReader none,
      .shRenderer none, .shRestore none, .runReturn])).map obsS
    = some (.returned, .killed, 3, false) := by decide

/-! Kill() at every point of the Exec, input that cannot be cancelled (ReleaseTerminal's wait ends by
the timeout). -/

/-- Kill() after 0 steps of the Exec (`el = .select`) -/
example : (runLabels (init (cfgE false)) (.sendCall 0 :: (execSchedule 0).take 0)).map (·.el) = some (.select) ∧
    (runLabels (init (cfgE false)) (.sendCall 0 :: (execSchedule 0).take 0 ++ .killCall ::
     [.shCancel (some 0), .sigExit, .resizeExit, .dispExit, .shHandlers (some 0),
      .shReader (some 0), .shRenderer (some 0), .shRestore (some 0), .elCtxExit, .runTail,
      .shCancel none, .shHandlers none, .shReader none, .shRenderer none, .shRestore none,
      .runReturn])).map obsS
    = some (.returned, .killed, 2, false) := by decide

/-- Kill() after 1 steps of the Exec (`el = .execRelease (.cancelReader)`) -/
example : (runLabels (init (cfgE false)) (.sendCall 0 :: (execSchedule 0).take 1)).map (·.el) = some (.execRelease (.cancelReader)) ∧
    (runLabels (init (cfgE false)) (.sendCall 0 :: (execSchedule 0).take 1 ++ .killCall ::
     [.shCancel (some 0), .sigExit, .resizeExit, .dispExit, .shHandlers (some 0),
      .shReader (some 0), .shRenderer (some 0), .shRestore (some 0), .exRelCancel,
      .exRelWaitTimeout, .exRelRenderer, .exRelRestore, .execCmdReturns, .exResReader,
      .exResRenderer, .exResSpawn, .callbackReturns, .elCmdAbort, .runTail, .shCancel none,
      .shHandlers none, .shReader none, .shRenderer none, .shRestore none, .runReturn])).map obsS
    = some (.returned, .killed, 3, false) := by decide

/-- Kill() after 2 steps of the Exec (`el = .execRelease (.waitRead)`) -/
example : (runLabels (init (cfgE false)) (.sendCall 0 :: (execSchedule 0).take 2)).map (·.el) = some (.execRelease (.waitRead)) ∧
    (runLabels (init (cfgE false)) (.sendCall 0 :: (execSchedule 0).take 2 ++ .killCall ::
     [.shCancel (some 0), .sigExit, .resizeExit, .dispExit, .shHandlers (some 0),
      .shReader (some 0), .shRenderer (some 0), .shRestore (some 0), .exRelWaitTimeout,
      .exRelRenderer, .exRelRestore, .execCmdReturns, .exResReader, .exResRenderer, .exResSpawn,
      .callbackReturns, .elCmdAbort, .runTail, .shCancel none, .shHandlers none, .shReader none,
      .shRenderer none, .shRestore none, .runReturn])).map obsS
    = some (.returned, .killed, 3, false) := by decide

/-- Kill() after 3 steps of the Exec (`el = .execRelease (.renderer)`) -/
example : (runLabels (init (cfgE false)) (.sendCall 0 :: (execSchedule 0).take 3)).map (·.el) = some (.execRelease (.renderer)) ∧
    (runLabels (init (cfgE false)) (.sendCall 0 :: (execSchedule 0).take 3 ++ .killCall ::
     [.shCancel (some 0), .sigExit, .resizeExit, .dispExit, .shHandlers (some 0),
      .shReader (some 0), .shRenderer (some 0), .shRestore (some 0), .exRelRenderer, .exRelRestore,
      .execCmdReturns, .exResReader, .exResRenderer, .exResSpawn, .callbackReturns, .elCmdAbort,
      .runTail, .shCancel none, .shHandlers none, .shReader none, .shRenderer none,
      .shRestore none, .runReturn])).map obsS
    = some (.returned, .killed, 3, false) := by decide

/-- Kill() after 4 steps of the Exec (`el = .execRelease (.restore)`) -/
example : (runLabels (init (cfgE false)) (.sendCall 0 :: (execSchedule 0).take 4)).map (·.el) = some (.execRelease (.restore)) ∧
    (runLabels (init (cfgE false)) (.sendCall 0 :: (execSchedule 0).take 4 ++ .killCall ::
     [.shCancel (some 0), .sigExit, .resizeExit, .dispExit, .shHandlers (some 0),
      .shReader (some 0), .shRenderer (some 0), .shRestore (some 0), .exRelRestore,
      .execCmdReturns, .exResReader, .exResRenderer, .exResSpawn, .callbackReturns, .elCmdAbort,
      .runTail, .shCancel none, .shHandlers none, .shReader none, .shRenderer none,
      .shRestore none, .runReturn])).map obsS
    = some (.returned, .killed, 3, false) := by decide

/-- Kill() after 5 steps of the Exec (`el = .execCmd`) -/
example : (runLabels (init (cfgE false)) (.sendCall 0 :: (execSchedule 0).take 5)).map (·.el) = some (.execCmd) ∧
    (runLabels (init (cfgE false)) (.sendCall 0 :: (execSchedule 0).take 5 ++ .killCall ::
     [.shCancel (some 0), .sigExit, .resizeExit, .dispExit, .shHandlers (some 0),
      .shReader (some 0), .shRenderer (some 0), .shRestore (some 0), .execCmdReturns, .exResReader,
      .exResRenderer, .exResSpawn, .callbackReturns, .elCmdAbort, .runTail, .shCancel none,
      .shHandlers none, .shReader none, .shRenderer none, .shRestore none, .runReturn])).map obsS
    = some (.returned, .killed, 3, false) := by decide

/-- Kill() after 6 steps of the Exec (`el = .execRestore (.reader)`) -/
example : (runLabels (init (cfgE false)) (.sendCall 0 :: (execSchedule 0).take 6)).map (·.el) = some (.execRestore (.reader)) ∧
    (runLabels (init (cfgE false)) (.sendCall 0 :: (execSchedule 0).take 6 ++ .killCall ::
     [.shCancel (some 0), .sigExit, .resizeExit, .dispExit, .shHandlers (some 0),
      .shReader (some 0), .shRenderer (some 0), .shRestore (some 0), .exResReader, .exResRenderer,
      .exResSpawn, .callbackReturns, .elCmdAbort, .runTail, .shCancel none, .shHandlers none,
      .shReader none, .shRenderer none, .shRestore none, .runReturn])).map obsS
    = some (.returned, .killed, 3, false) := by decide

/-- Kill() after 7 steps of the Exec (`el = .execRestore (.renderer)`) -/
example : (runLabels (init (cfgE false)) (.sendCall 0 :: (execSchedule 0).take 7)).map (·.el) = some (.execRestore (.renderer)) ∧
    (runLabels (init (cfgE false)) (.sendCall 0 :: (execSchedule 0).take 7 ++ .killCall ::
     [.shCancel (some 0), .sigExit, .resizeExit, .dispExit, .shHandlers (some 0),
      .shReader (some 0), .shRenderer (some 0), .shRestore (some 0), .exResRenderer, .exResSpawn,
      .callbackReturns, .elCmdAbort, .runTail, .shCancel none, .shHandlers none, .shReader none,
      .shRenderer none, .shRestore none, .runReturn])).map obsS
    = some (.returned, .killed, 3, false) := by decide

/-- Kill() after 8 steps of the Exec (`el = .execRestore (.spawn)`) -/
example : (runLabels (init (cfgE false)) (.sendCall 0 :: (execSchedule 0).take 8)).map (·.el) = some (.execRestore (.spawn)) ∧
    (runLabels (init (cfgE false)) (.sendCall 0 :: (execSchedule 0).take 8 ++ .killCall ::
     [.shCancel (some 0), .sigExit, .resizeExit, .dispExit, .shHandlers (some 0),
      .shReader (some 0), .shRenderer (some 0), .shRestore (some 0), .exResSpawn, .callbackReturns,
      .elCmdAbort, .runTail, .shCancel none, .shHandlers none, .shReader none, .shRenderer none,
      .shRestore none, .runReturn])).map obsS
    = some (.returned, .killed, 3, false) := by decide

/-- Kill() after 9 steps of the Exec (`el = .callback`) -/
example : (runLabels (init (cfgE false)) (.sendCall 0 :: (execSchedule 0).take 9)).map (·.el) = some (.callback) ∧
    (runLabels (init (cfgE false)) (.sendCall 0 :: (execSchedule 0).take 9 ++ .killCall ::
     [.shCancel (some 0), .sigExit, .resizeExit, .dispExit, .shHandlers (some 0),
      .shReader (some 0), .shRenderer (some 0), .shRestore (some 0), .callbackReturns, .elCmdAbort,
      .runTail, .shCancel none, .shHandlers none, .shReader none, .shRenderer none,
      .shRestore none, .runReturn])).map obsS
    = some (.returned, .killed, 3, false) := by decide

/-! The supplied context is cancelled at every point of the Exec, cancelable input. -/

/-- cancellation after 0 steps of the Exec (`el = .select`) -/
example : (runLabels (init (cfgE true)) (.sendCall 0 :: (execRunC).take 0)).map (·.el) = some (.select) ∧
    (runLabels (init (cfgE true)) (.sendCall 0 :: (execRunC).take 0 ++ .parentCancel ::
     [.sigExit, .resizeExit, .dispExit, .elCtxExit, .runTail, .shCancel none, .shHandlers none,
      .shReader none, .readerCanceled, .shRenderer none, .shRestore none, .runReturn])).map obsS
    = some (.returned, .killed, 1, false) := by decide

/-- cancellation after 1 steps of the Exec (`el = .execRelease (.cancelReader)`) -/
example : (runLabels (init (cfgE true)) (.sendCall 0 :: (execRunC).take 1)).map (·.el) = some (.execRelease (.cancelReader)) ∧
    (runLabels (init (cfgE true)) (.sendCall 0 :: (execRunC).take 1 ++ .parentCancel ::
     [.sigExit, .resizeExit, .dispExit, .exRelCancel, .readerCanceled, .exRelWaitRead,
      .exRelRenderer, .exRelRestore, .execCmdReturns, .exResReader, .exResRenderer, .exResSpawn,
      .callbackReturns, .elCmdAbort, .runTail, .shCancel none, .shHandlers none, .shReader none,
      .readerCanceled, .shRenderer none, .shRestore none, .runReturn])).map obsS
    = some (.returned, .killed, 2, false) := by decide

/-- cancellation after 2 steps of the Exec (`el = .execRelease (.waitRead)`) -/
example : (runLabels (init (cfgE true)) (.sendCall 0 :: (execRunC).take 2)).map (·.el) = some (.execRelease (.waitRead)) ∧
    (runLabels (init (cfgE true)) (.sendCall 0 :: (execRunC).take 2 ++ .parentCancel ::
     [.sigExit, .resizeExit, .dispExit, .readerCanceled, .exRelWaitRead, .exRelRenderer,
      .exRelRestore, .execCmdReturns, .exResReader, .exResRenderer, .exResSpawn, .callbackReturns,
      .elCmdAbort, .runTail, .shCancel none, .shHandlers none, .shReader none, .readerCanceled,
      .shRenderer none, .shRestore none, .runReturn])).map obsS
    = some (.returned, .killed, 2, false) := by decide

/-- cancellation after 3 steps of the Exec (`el = .execRelease (.waitRead)`) -/
example : (runLabels (init (cfgE true)) (.sendCall 0 :: (execRunC).take 3)).map (·.el) = some (.execRelease (.waitRead)) ∧
    (runLabels (init (cfgE true)) (.sendCall 0 :: (execRunC).take 3 ++ .parentCancel ::
     [.sigExit, .resizeExit, .dispExit, .exRelWaitRead, .exRelRenderer, .exRelRestore,
      .execCmdReturns, .exResReader, .exResRenderer, .exResSpawn, .callbackReturns, .elCmdAbort,
      .runTail, .shCancel none, .shHandlers none, .shReader none, .readerCanceled,
      .shRenderer none, .shRestore none, .runReturn])).map obsS
    = some (.returned, .killed, 2, false) := by decide

/-- cancellation after 4 steps of the Exec (`el = .execRelease (.renderer)`) -/
example : (runLabels (init (cfgE true)) (.sendCall 0 :: (execRunC).take 4)).map (·.el) = some (.execRelease (.renderer)) ∧
    (runLabels (init (cfgE true)) (.sendCall 0 :: (execRunC).take 4 ++ .parentCancel ::
     [.sigExit, .resizeExit, .dispExit, .exRelRenderer, .exRelRestore, .execCmdReturns,
      .exResReader, .exResRenderer, .exResSpawn, .callbackReturns, .elCmdAbort, .runTail,
      .shCancel none, .shHandlers none, .shReader none, .readerCanceled, .shRenderer none,
      .shRestore none, .runReturn])).map obsS
    = some (.returned, .killed, 2, false) := by decide

/-- cancellation after 5 steps of the Exec (`el = .execRelease (.restore)`) -/
example : (runLabels (init (cfgE true)) (.sendCall 0 :: (execRunC).take 5)).map (·.el) = some (.execRelease (.restore)) ∧
    (runLabels (init (cfgE true)) (.sendCall 0 :: (execRunC).take 5 ++ .parentCancel ::
     [.sigExit, .resizeExit, .dispExit, .exRelRestore, .execCmdReturns, .exResReader,
      .exResRenderer, .exResSpawn, .callbackReturns, .elCmdAbort, .runTail, .shCancel none,
      .shHandlers none, .shReader none, .readerCanceled, .shRenderer none, .shRestore none,
      .runReturn])).map obsS
    = some (.returned, .killed, 2, false) := by decide

/-- cancellation after 6 steps of the Exec (`el = .execCmd`) -/
example : (runLabels (init (cfgE true)) (.sendCall 0 :: (execRunC).take 6)).map (·.el) = some (.execCmd) ∧
    (runLabels (init (cfgE true)) (.sendCall 0 :: (execRunC).take 6 ++ .parentCancel ::
     [.sigExit, .resizeExit, .dispExit, .execCmdReturns, .exResReader, .exResRenderer, .exResSpawn,
      .callbackReturns, .elCmdAbort, .runTail, .shCancel none, .shHandlers none, .shReader none,
      .readerCanceled, .shRenderer none, .shRestore none, .runReturn])).map obsS
    = some (.returned, .killed, 2, false) := by decide

/-- cancellation after 7 steps of the Exec (`el = .execRestore (.reader)`) -/
example : (runLabels (init (cfgE true)) (.sendCall 0 :: (execRunC).take 7)).map (·.el) = some (.execRestore (.reader)) ∧
    (runLabels (init (cfgE true)) (.sendCall 0 :: (execRunC).take 7 ++ .parentCancel ::
     [.sigExit, .resizeExit, .dispExit, .exResReader, .exResRenderer, .exResSpawn,
      .callbackReturns, .elCmdAbort, .runTail, .shCancel none, .shHandlers none, .shReader none,
      .readerCanceled, .shRenderer none, .shRestore none, .runReturn])).map obsS
    = some (.returned, .killed, 2, false) := by decide

/-- cancellation after 8 steps of the Exec (`el = .execRestore (.renderer)`) -/
example : (runLabels (init (cfgE true)) (.sendCall 0 :: (execRunC).take 8)).map (·.el) = some (.execRestore (.renderer)) ∧
    (runLabels (init (cfgE true)) (.sendCall 0 :: (execRunC).take 8 ++ .parentCancel ::
     [.sigExit, .resizeExit, .dispExit, .exResRenderer, .exResSpawn, .callbackReturns, .elCmdAbort,
      .runTail, .shCancel none, .shHandlers none, .shReader none, .readerCanceled,
      .shRenderer none, .shRestore none, .runReturn])).map obsS
    = some (.returned, .killed, 2, false) := by decide

/-- cancellation after 9 steps of the Exec (`el = .execRestore (.spawn)`) -/
example : (runLabels (init (cfgE true)) (.sendCall 0 :: (execRunC).take 9)).map (·.el) = some (.execRestore (.spawn)) ∧
    (runLabels (init (cfgE true)) (.sendCall 0 :: (execRunC).take 9 ++ .parentCancel ::
     [.sigExit, .resizeExit, .dispExit, .exResSpawn, .callbackReturns, .elCmdAbort, .runTail,
      .shCancel none, .shHandlers none, .shReader none, .readerCanceled, .shRenderer none,
      .shRestore none, .runReturn])).map obsS
    = some (.returned, .killed, 2, false) := by decide

/-- cancellation after 10 steps of the Exec (`el = .callback`) -/
example : (runLabels (init (cfgE true)) (.sendCall 0 :: (execRunC).take 10)).map (·.el) = some (.callback) ∧
    (runLabels (init (cfgE true)) (.sendCall 0 :: (execRunC).take 10 ++ .parentCancel ::
     [.sigExit, .resizeExit, .dispExit, .callbackReturns, .elCmdAbort, .runTail, .shCancel none,
      .shHandlers none, .shReader none, .readerCanceled, .shRenderer none, .shRestore none,
      .runReturn])).map obsS
    = some (.returned, .killed, 2, false) := by decide

/-! The supplied context is cancelled at every point of the Exec, input that cannot be cancelled. -/

/-- cancellation after 0 steps of the Exec (`el = .select`) -/
example : (runLabels (init (cfgE false)) (.sendCall 0 :: (execSchedule 0).take 0)).map (·.el) = some (.select) ∧
    (runLabels (init (cfgE false)) (.sendCall 0 :: (execSchedule 0).take 0 ++ .parentCancel ::
     [.sigExit, .resizeExit, .dispExit, .elCtxExit, .runTail, .shCancel none, .shHandlers none,
      .shReader none, .shRenderer none, .shRestore none, .runReturn])).map obsS
    = some (.returned, .killed, 1, false) := by decide

/-- cancellation after 1 steps of the Exec (`el = .execRelease (.cancelReader)`) -/
example : (runLabels (init (cfgE false)) (.sendCall 0 :: (execSchedule 0).take 1)).map (·.el) = some (.execRelease (.cancelReader)) ∧
    (runLabels (init (cfgE false)) (.sendCall 0 :: (execSchedule 0).take 1 ++ .parentCancel ::
     [.sigExit, .resizeExit, .dispExit, .exRelCancel, .exRelWaitTimeout, .exRelRenderer,
      .exRelRestore, .execCmdReturns, .exResReader, .exResRenderer, .exResSpawn, .callbackReturns,
      .elCmdAbort, .runTail, .shCancel none, .shHandlers none, .shReader none, .shRenderer none,
      .shRestore none, .runReturn])).map obsS
    = some (.returned, .killed, 2, false) := by decide

/-- cancellation after 2 steps of the Exec (`el = .execRelease (.waitRead)`) -/
example : (runLabels (init (cfgE false)) (.sendCall 0 :: (execSchedule 0).take 2)).map (·.el) = some (.execRelease (.waitRead)) ∧
    (runLabels (init (cfgE false)) (.sendCall 0 :: (execSchedule 0).take 2 ++ .parentCancel ::
     [.sigExit, .resizeExit, .dispExit, .exRelWaitTimeout, .exRelRenderer, .exRelRestore,
      .execCmdReturns, .exResReader, .exResRenderer, .exResSpawn, .callbackReturns, .elCmdAbort,
      .runTail, .shCancel none, .shHandlers none, .shReader none, .shRenderer none,
      .shRestore none, .runReturn])).map obsS
    = some (.returned, .killed, 2, false) := by decide

/-- cancellation after 3 steps of the Exec (`el = .execRelease (.renderer)`) -/
example : (runLabels (init (cfgE false)) (.sendCall 0 :: (execSchedule 0).take 3)).map (·.el) = some (.execRelease (.renderer)) ∧
    (runLabels (init (cfgE false)) (.sendCall 0 :: (execSchedule 0).take 3 ++ .parentCancel ::
     [.sigExit, .resizeExit, .dispExit, .exRelRenderer, .exRelRestore, .execCmdReturns,
      .exResReader, .exResRenderer, .exResSpawn, .callbackReturns, .elCmdAbort, .runTail,
      .shCancel none, .shHandlers none, .shReader none, .shRenderer none, .shRestore none,
      .runReturn])).map obsS
    = some (.returned, .killed, 2, false) := by decide

/-- cancellation after 4 steps of the Exec (`el = .execRelease (.restore)`) -/
example : (runLabels (init (cfgE false)) (.sendCall 0 :: (execSchedule 0).take 4)).map (·.el) = some (.execRelease (.restore)) ∧
    (runLabels (init (cfgE false)) (.sendCall 0 :: (execSchedule 0).take 4 ++ .parentCancel ::
     [.sigExit, .resizeExit, .dispExit, .exRelRestore, .execCmdReturns, .exResReader,
      .exResRenderer, .exResSpawn, .callbackReturns, .elCmdAbort, .runTail, .shCancel none,
      .shHandlers none, .shReader none, .shRenderer none, .shRestore none, .runReturn])).map obsS
    = some (.returned, .killed, 2, false) := by decide

/-- cancellation after 5 steps of the Exec (`el = .execCmd`) -/
example : (runLabels (init (cfgE false)) (.sendCall 0 :: (execSchedule 0).take 5)).map (·.el) = some (.execCmd) ∧
    (runLabels (init (cfgE false)) (.sendCall 0 :: (execSchedule 0).take 5 ++ .parentCancel ::
     [.sigExit, .resizeExit, .dispExit, .execCmdReturns, .exResReader, .exResRenderer, .exResSpawn,
      .callbackReturns, .elCmdAbort, .runTail, .shCancel none, .shHandlers none, .shReader none,
      .shRenderer none, .shRestore none, .runReturn])).map obsS
    = some (.returned, .killed, 2, false) := by decide

/-- cancellation after 6 steps of the Exec (`el = .execRestore (.reader)`) -/
example : (runLabels (init (cfgE false)) (.sendCall 0 :: (execSchedule 0).take 6)).map (·.el) = some (.execRestore (.reader)) ∧
    (runLabels (init (cfgE false)) (.sendCall 0 :: (execSchedule 0).take 6 ++ .parentCancel ::
     [.sigExit, .resizeExit, .dispExit, .exResReader, .exResRenderer, .exResSpawn,
      .callbackReturns, .elCmdAbort, .runTail, .shCancel none, .shHandlers none, .shReader none,
      .shRenderer none, .shRestore none, .runReturn])).map obsS
    = some (.returned, .killed, 2, false) := by decide

/-- cancellation after 7 steps of the Exec (`el = .execRestore (.renderer)`) -/
example : (runLabels (init (cfgE false)) (.sendCall 0 :: (execSchedule 0).take 7)).map (·.el) = some (.execRestore (.renderer)) ∧
    (runLabels (init (cfgE false)) (.sendCall 0 :: (execSchedule 0).take 7 ++ .parentCancel ::
     [.sigExit, .resizeExit, .dispExit, .exResRenderer, .exResSpawn, .callbackReturns, .elCmdAbort,
      .runTail, .shCancel none, .shHandlers none, .shReader none, .shRenderer none,
      .shRestore none, .runReturn])).map obsS
    = some (.returned, .killed, 2, false) := by decide

/-- cancellation after 8 steps of the Exec (`el = .execRestore (.spawn)`) -/
example : (runLabels (init (cfgE false)) (.sendCall 0 :: (execSchedule 0).take 8)).map (·.el) = some (.execRestore (.spawn)) ∧
    (runLabels (init (cfgE false)) (.sendCall 0 :: (execSchedule 0).take 8 ++ .parentCancel ::
     [.sigExit, .resizeExit, .dispExit, .exResSpawn, .callbackReturns, .elCmdAbort, .runTail,
      .shCancel none, .shHandlers none, .shReader none, .shRenderer none, .shRestore none,
      .runReturn])).map obsS
    = some (.returned, .killed, 2, false) := by decide

/-- cancellation after 9 steps of the Exec (`el = .callback`) -/
example : (runLabels (init (cfgE false)) (.sendCall 0 :: (execSchedule 0).take 9)).map (·.el) = some (.callback) ∧
    (runLabels (init (cfgE false)) (.sendCall 0 :: (execSchedule 0).take 9 ++ .parentCancel ::
     [.sigExit, .resizeExit, .dispExit, .callbackReturns, .elCmdAbort, .runTail, .shCancel none,
      .shHandlers none, .shReader none, .shRenderer none, .shRestore none, .runReturn])).map obsS
    = some (.returned, .killed, 2, false) := by decide

/-- the counterexample to `C04_run_returns` / the previous `C04_run_returns_partial` inside an Exec:
Kill() while ReleaseTerminal runs; Kill's shutdown completes, the loop reaches the command: no
progress step is enabled, Run has not returned, only the command's return goes on -/
example : (runLabels (init (cfgE false))
      [.sendCall 0, .elRecvSender 0, .exRelCancel, .killCall, .shCancel (some 0), .sigExit, .resizeExit,
       .dispExit, .shHandlers (some 0), .shReader (some 0), .shRenderer (some 0), .shRestore (some 0),
       .exRelWaitTimeout, .exRelRenderer, .exRelRestore]).map
      (fun s => (s.el, s.runPc,
        (([.suSigHandler, .suNewRenderer, .suStartRenderer, .suSpawnInit, .suOpenReader, .suSpawnHandlers,
          .exRelCancel, .exRelWaitRead, .exRelWaitTimeout, .exRelRenderer, .exRelRestore, .exResReader,
          .exResRenderer, .exResSpawn,
          .elCtxExit, .elCmdAbort, .runTail, .runReturn, .dispExit, .sigExit, .sigAbort, .resizeExit,
          .initAbort, .readerMsgAbort, .readerErrAbort, .readerCanceled] : List Label) ++
         [none, some 0].flatMap (fun w => [Label.shCancel w, .shHandlers w, .shReader w, .shWaitRead w,
           .shWaitReadTimeout w, .shRenderer w, .shRestore w])).all (fun l => (step s l).isNone),
        (step s .execCmdReturns).isSome))
      = some (.execCmd, .loop, true, true) := by
  decide

/-- the command panics: ErrProgramKilled; signals stay ignored (nobody calls RestoreTerminal) -/
example : (runLabels (init (cfgE true)) (.sendCall 0 :: execRunC.take 6 ++
    [.execCmdPanics, .runTail, .shCancel none, .dispExit, .sigExit, .resizeExit, .shHandlers none,
     .shReader none, .shRenderer none, .shRestore none, .runReturn])).map
    (fun s => (obsS s, s.ignoreSignals)) = some ((.returned, .killed, 2, false), true) := by decide

/-! ### the trace checker of the `ltrace` correspondence stream is sound

The `ltrace` stream records histories of REAL programs (trace points at the start-up stages, the phases of
every shutdown call, the goroutine exits, the loop's end, Run's tail and return) and asks the checker of
`Tea/Runtime/LifeAccept.lean` whether the model has a run with that observable history. The answer
"accepted" means what it says: there is a run of `step` from Run's entry `init0 c`, through reachable
states only, whose observable part is exactly the recorded sequence, with nothing but hidden labels in
between (`Run`, `Explains`). So every theorem of this file about reachable states applies to the states the
recorded history passed through. (The checker is bounded by fuel, so it may in principle reject a history
the model has; it never accepts one the model has not.) -/

/-- **ACCEPTED MEANS: THE MODEL HAS THAT RUN.** -/
theorem C04_trace_checker_sound (hid : List Label) (c : Config) (obs : List Obs)
    (h : firstRejectedWith hid c obs = none) :
    ∃ s0 s', HiddenPath hid (init0 c) s0 ∧ Reachable c s0 ∧ Reachable c s' ∧ Run hid s0 obs s' :=
  firstRejectedWith_sound hid c obs h

end Tea.Props.C04
