import Tea.Proofs.LifecycleRank
/-
C04 — Run always returns, with the right error, whatever is in flight at termination.

"After a quit message, Quit(), Kill(), cancellation of the supplied context, an
interrupt message, SIGINT/SIGTERM, an input read error or a recovered panic, Run
returns as soon as any in-progress user callback returns - no matter what else is
happening: an Update or View in progress, commands that never return, a Batch being
dispatched, goroutines blocked in Send, unread or never-ending input. The error is nil
only for a quit, ErrInterrupted for an interrupt, wraps ErrProgramKilled for Kill,
context cancellation and recovered panics, and is the reader's error for an input
failure; end of input (EOF) alone does not end the program."

The theorems are about the Lifecycle LTS (Tea/Runtime/Lifecycle.lean): the event loop,
the command dispatcher, the handler goroutines, the read loop, the renderer's listen
goroutine, Run's tail, every concurrent caller of shutdown (Kill(), panic handlers) and
any number of goroutines blocked in Send or Wait. They hold for EVERY configuration
`c : Config` and EVERY schedule (`Reachable c s` quantifies over all label sequences,
external labels - user code returning or panicking, signals, input, API calls,
Kill(), parent-context cancellation - included).

Vocabulary (defined in `Tea/Proofs/Lifecycle.lean`, restated below by `rfl` theorems):
* `Terminating s`   the context is cancelled, or the loop has exited, or a shutdown caller
                    on another goroutine (Kill(), a panic handler) exists;
* `NoCallback s`    no user code (filter/Update, View, the output writer) is in progress on
                    a goroutine the shutdown waits for;
* `progressLabel l` `l` is one of the internal steps that move the termination forward;
                    the hand-over of a message to a running loop and the returns of the API
                    callers (`sendAbort`, `waitReturn`) are NOT progress labels, so the
                    theorems say that Run's return needs the help of no other goroutine;
* `rank s`          the amount of termination work left (a natural number).
Only property theorems live here; helper lemmas are in `Tea/Proofs/Lifecycle.lean` (induction
principle, invariants, stability) and `Tea/Proofs/LifecycleRank.lean` (rank, no deadlock).
-/
namespace Tea.Props.C04
open Tea.Runtime.Life

/-! ### vocabulary, restated -/

/-- the steps that count as progress of the termination -/
theorem progressLabel_def (l : Label) : progressLabel l =
    match l with
    | .elCtxExit | .elCmdAbort | .runTail | .shCancel _ | .shHandlers _ | .shReader _ | .shWaitRead _
    | .shWaitReadTimeout _ | .shRenderer _ | .shRestore _ | .runReturn | .dispExit | .sigExit | .sigAbort
    | .resizeExit | .initAbort | .readerMsgAbort | .readerErrAbort | .readerCanceled => true
    | _ => false := by
  cases l <;> rfl

/-- every progress label is an internal step of the runtime: none is an action of the
environment or of user code -/
theorem progressLabel_isLifecycle (l : Label) (h : progressLabel l = true) : l.isLifecycle = true :=
  progress_isLifecycle l h

/-- the rank: steps left for Run itself (leave the loop, the phases of shutdown, return), the
phases left for every other shutdown caller, and one for the loop, the dispatcher, every
handler goroutine and the read loop while they have not exited -/
theorem rank_def (s : St) : rank s =
    runW s + killersW s.killers + elW s.el + (if s.dispAlive = true then 1 else 0) + sigW s.sig
      + hW s.resize + hW s.initG + readW s.reader := rfl

/-! ### 1. Run's return cannot be blocked -/

/-- NO DEADLOCK. In every reachable state in which termination has begun (for whatever reason),
Run has not returned yet and no user callback is in progress, some progress step is enabled:
Run's return is never blocked by a command that does not return, a Batch being dispatched,
goroutines blocked in Send, the signal handler, unread or never-ending input, or a concurrent
Kill(). -/
theorem C04_no_deadlock (c : Config) (s : St) (hr : Reachable c s) (ht : Terminating s)
    (hn : s.runPc ≠ .returned) (hc : NoCallback s) :
    ∃ l, progressLabel l = true ∧ (step s l).isSome = true :=
  no_deadlock hr ht hn hc

/-- ... in particular a lifecycle step is enabled (the form asked for in the task) -/
theorem C04_no_deadlock_lifecycle (c : Config) (s : St) (hr : Reachable c s) (ht : Terminating s)
    (hn : s.runPc ≠ .returned) (hc : NoCallback s) :
    ∃ l, l.isLifecycle = true ∧ (step s l).isSome = true := by
  obtain ⟨l, hp, he⟩ := no_deadlock hr ht hn hc
  exact ⟨l, progress_isLifecycle l hp, he⟩

/-- the contrapositive: a reachable terminating state without a callback in progress in which
no progress step is enabled is a state in which Run HAS returned -/
theorem C04_stuck_means_returned (c : Config) (s : St) (hr : Reachable c s) (ht : Terminating s)
    (hc : NoCallback s) (hstuck : ∀ l, progressLabel l = true → step s l = none) :
    s.runPc = .returned := by
  apply Classical.byContradiction
  intro hn
  obtain ⟨l, hp, he⟩ := no_deadlock hr ht hn hc
  rw [hstuck l hp] at he
  cases he

/-! ### 2. ... and it comes after a bounded number of steps -/

/-- BOUNDED. Every progress step strictly decreases the rank. -/
theorem C04_bounded (s s' : St) (l : Label) (hp : progressLabel l = true)
    (hs : step s l = some s') : rank s' < rank s :=
  rank_decreases hp hs

/-- no other step of anybody - user code returning or panicking, signals, input, ticks, API
calls, parent cancellation, message hand-overs - increases the rank, except a new
shutdown caller (`killCall`: Kill() or a panic handler on another goroutine) ... -/
theorem C04_rank_never_increases (s s' : St) (l : Label) (hl : l ≠ .killCall)
    (hs : step s l = some s') : rank s' ≤ rank s :=
  rank_le hl hs

/-- ... which adds exactly the six steps of its own shutdown call -/
theorem C04_rank_kill (s s' : St) (hs : step s .killCall = some s') : rank s' = rank s + 6 :=
  rank_killCall hs

/-- so in ANY schedule whatsoever the number of progress steps is bounded: by the rank at the
start plus six for every Kill() that joins in -/
theorem C04_progress_budget (s s' : St) (ls : List Label) (h : runLabels s ls = some s') :
    ls.countP progressLabel + rank s' ≤ rank s + 6 * ls.count .killCall :=
  progress_budget ls h

/-- termination, once begun, stays begun, whatever happens next -/
theorem C04_terminating_stable (s s' : St) (ls : List Label) (h : runLabels s ls = some s')
    (ht : Terminating s) : Terminating s' :=
  terminating_runLabels ls h ht

/-- progress steps start no user code: no callback in progress stays so -/
theorem C04_progress_starts_no_callback (s s' : St) (l : Label) (hp : progressLabel l = true)
    (hs : step s l = some s') (hc : NoCallback s) : NoCallback s' :=
  noCallback_progress hp hs hc

/-- RUN RETURNS. From every reachable state in which termination has begun and no user
callback is in progress, there is a schedule of at most `rank s` steps, ALL of them progress
steps (no help from the environment, user code, Send callers or waiters), every one enabled in
turn, at the end of which Run has returned. With `C04_no_deadlock` (such a step exists as long
as Run has not returned), `C04_bounded` (each one consumes rank) and
`C04_rank_never_increases` (nobody but a new Kill() gives rank back) this is: Run returns as
soon as any in-progress callback returns. -/
theorem C04_run_returns (c : Config) (s : St) (hr : Reachable c s) (ht : Terminating s)
    (hc : NoCallback s) :
    ∃ ls s', (∀ l ∈ ls, progressLabel l = true) ∧ ls.length ≤ rank s ∧ runLabels s ls = some s' ∧
      s'.runPc = .returned :=
  run_returns (rank s) (Nat.le_refl _) hr ht hc

/-- KILL() RETURNS TOO. The same for the other callers of shutdown: a Kill() (or a panic handler
on a command goroutine) that has not finished its shutdown is never blocked when no callback
is in progress ... -/
theorem C04_kill_not_blocked (c : Config) (s : St) (hr : Reachable c s) (hc : NoCallback s)
    (j : Nat) (ph : ShPhase) (hj : s.killers[j]? = some ph) (hph : ph ≠ .done) :
    ∃ l, progressLabel l = true ∧ (step s l).isSome = true :=
  killer_no_deadlock hr hc j ph hj hph

/-- ... and at most `rank s` progress steps lead to a state in which EVERY shutdown call has
completed: Run has returned (if termination had begun) and every Kill() has finished. -/
theorem C04_everybody_done (c : Config) (s : St) (hr : Reachable c s) (hc : NoCallback s) :
    ∃ ls s', (∀ l ∈ ls, progressLabel l = true) ∧ ls.length ≤ rank s ∧ runLabels s ls = some s' ∧
      (Terminating s → s'.runPc = .returned) ∧ (∀ (j : Nat) (ph : ShPhase), s'.killers[j]? = some ph → ph = .done) :=
  everybody_done hr hc

/-! ### 3. the error -/

/-- ERROR CLASS. When Run has returned, the loop had exited for some cause, and the error is
the one Run computes from that cause and the state of the context at the moment of its check
(`errOf`: quit -> nil, or killed if the context was cancelled by then; interrupt ->
ErrInterrupted; cancelled context -> ErrProgramKilled; panic -> ErrProgramKilled; read error
-> the reader's error). -/
theorem C04_error_class (c : Config) (s : St) (hr : Reachable c s) (h : s.runPc = .returned) :
    ∃ cause ctxAtCheck, s.el = .exited cause ∧ s.runErr = errOf cause ctxAtCheck := by
  obtain ⟨cz, b, h1, h2, _⟩ := inv_err hr (by rw [h]; decide)
  exact ⟨cz, b, h1, h2⟩

/-- Run's tail only runs after the loop has exited -/
theorem C04_tail_after_loop (c : Config) (s : St) (hr : Reachable c s) (h : s.runPc ≠ .loop) :
    ∃ cause, s.el = .exited cause := by
  obtain ⟨cz, _, h1, _⟩ := inv_err hr h
  exact ⟨cz, h1⟩

/-- an interrupt (interrupt message or SIGINT) gives ErrInterrupted -/
theorem C04_error_interrupt (c : Config) (s : St) (hr : Reachable c s) (h : s.runPc ≠ .loop)
    (hel : s.el = .exited .interrupt) : s.runErr = .interrupted := by
  obtain ⟨cz, b, h1, h2, _⟩ := inv_err hr h
  rw [hel] at h1; cases h1; exact h2

/-- a cancelled context (Kill(), cancellation of the supplied context, a panic in a command)
gives an error wrapping ErrProgramKilled -/
theorem C04_error_ctx (c : Config) (s : St) (hr : Reachable c s) (h : s.runPc ≠ .loop)
    (hel : s.el = .exited .ctx) : s.runErr = .killed := by
  obtain ⟨cz, b, h1, h2, _⟩ := inv_err hr h
  rw [hel] at h1; cases h1; exact h2

/-- a recovered panic in Update / View gives an error wrapping ErrProgramKilled -/
theorem C04_error_panic (c : Config) (s : St) (hr : Reachable c s) (h : s.runPc ≠ .loop)
    (hel : s.el = .exited .panic) : s.runErr = .killed := by
  obtain ⟨cz, b, h1, h2, _⟩ := inv_err hr h
  rw [hel] at h1; cases h1; exact h2

/-- an input failure gives the reader's error -/
theorem C04_error_reader (c : Config) (s : St) (hr : Reachable c s) (h : s.runPc ≠ .loop)
    (hel : s.el = .exited .readErr) : s.runErr = .reader := by
  obtain ⟨cz, b, h1, h2, _⟩ := inv_err hr h
  rw [hel] at h1; cases h1; exact h2

/-- a quit (quit message, Quit(), SIGTERM) gives nil - or ErrProgramKilled when the context had
been cancelled as well by the time Run looked (`killed := ctx.Err() != nil || err != nil`) -/
theorem C04_error_quit (c : Config) (s : St) (hr : Reachable c s) (h : s.runPc ≠ .loop)
    (hel : s.el = .exited .quit) : s.runErr = .nil ∨ s.runErr = .killed := by
  obtain ⟨cz, b, h1, h2, _⟩ := inv_err hr h
  rw [hel] at h1; cases h1
  cases b
  · exact Or.inl h2
  · exact Or.inr h2

/-- NIL ONLY FOR QUIT. Once Run is past its loop, a nil error means the loop ended by a quit. -/
theorem C04_nil_only_for_quit (c : Config) (s : St) (hr : Reachable c s) (h : s.runPc ≠ .loop)
    (hnil : s.runErr = .nil) : s.el = .exited .quit := by
  obtain ⟨cz, b, h1, h2, _⟩ := inv_err hr h
  rw [hnil] at h2
  cases cz <;> cases b <;> first | exact h1 | cases h2

/-- if the context was already cancelled (Kill(), parent cancellation) when Run left its loop,
the error is never nil, whatever ended the loop -/
theorem C04_cancelled_never_nil (s s' : St) (hs : step s .runTail = some s')
    (hctx : s.ctxDone = true) : s'.runErr ≠ .nil := by
  simp only [step] at hs
  split at hs
  · rename_i cz _
    split at hs
    · cases hs
      cases cz <;> simp [errOf, hctx]
    · cases hs
  · cases hs

/-- the error is fixed when Run leaves its loop: no later step changes it -/
theorem C04_error_fixed (s s' : St) (l : Label) (hs : step s l = some s') (h : s.runPc ≠ .loop) :
    s'.runErr = s.runErr ∧ s'.runPc ≠ .loop := by
  step_cases hs l <;> simp_all

/-! ### 4. end of input -/

/-- EOF IS NOT TERMINATION. The end of the input only ends the read loop: the event loop, the
context, Run and the shutdown callers are untouched, and the program is terminating after it
exactly if it was before. -/
theorem C04_eof_is_not_termination (s s' : St) (hs : step s .readEOF = some s') :
    s'.el = s.el ∧ s'.ctxDone = s.ctxDone ∧ s'.runPc = s.runPc ∧ s'.killers = s.killers ∧
      (Terminating s' ↔ Terminating s) := by
  simp only [step] at hs
  split at hs
  · cases hs; exact ⟨rfl, rfl, rfl, rfl, Iff.rfl⟩
  · cases hs

/-! ### 5. non-vacuity -/

/-- a program with a signal handler, a resize listener, a cancelable input, one user Send and
one Quit() caller, and two Wait callers -/
def cfg : Config :=
  { cancelable := true, withSignalHandler := true, ignoreSignals := false, withResize := true,
    withInitCmd := false, withInput := true, senders := [.user, .quit], waiters := 2 }

/-- what the examples look at -/
def obs (s : St) : RunPc × ErrClass × Nat × Bool := (s.runPc, s.runErr, s.restores, s.finishedClosed)

/-- Kill() while Update is in progress, then Update returns: the loop sees the cancelled
context instead of blocking on the command hand-over, both shutdown calls (Kill's and Run's)
complete, the terminal is restored by both, Run returns ErrProgramKilled -/
def killDuringUpdate : List Label :=
  [.sendCall 0, .elRecvSender 0, .killCall, .shCancel (some 0), .callbackReturns, .elCmdAbort,
   .runTail, .shCancel none, .dispExit, .sigExit, .resizeExit, .shHandlers none,
   .shHandlers (some 0), .shReader none, .shReader (some 0), .shRenderer none,
   .shRenderer (some 0), .shRestore none, .shRestore (some 0), .runReturn]

example : (runLabels (init cfg) killDuringUpdate).map obs = some (.returned, .killed, 2, true) := by
  decide

/-- SIGINT racing a queued Quit(): the quit wins, the signal handler, blocked handing over its
interrupt message, takes `sigAbort` when the context is cancelled; Run returns nil -/
def sigintLosesToQuit : List Label :=
  [.sendCall 1, .signal true, .elRecvSender 1, .runTail, .shCancel none, .sigAbort, .dispExit,
   .resizeExit, .shHandlers none, .shReader none, .readerCanceled, .shWaitRead none,
   .shRenderer none, .shRestore none, .runReturn]

example : (runLabels (init cfg) sigintLosesToQuit).map obs = some (.returned, .nil, 1, true) := by
  decide

/-- the state just after Kill()'s `cancel()` with Update still running is reachable,
terminating, has Run in its loop - and as soon as Update returns the hypotheses of
`C04_no_deadlock` / `C04_run_returns` hold -/
example : ∃ s, Reachable cfg s ∧ Terminating s ∧ NoCallback s ∧ s.runPc = .loop ∧ s.el = .cmdSend ∧
    rank s = 18 := by
  obtain ⟨s, hs⟩ : ∃ s, runLabels (init cfg) (killDuringUpdate.take 5) = some s :=
    Option.isSome_iff_exists.1 (by decide)
  have h : (runLabels (init cfg) (killDuringUpdate.take 5)).map
      (fun s => (s.ctxDone, s.el, s.listen, s.runPc, rank s)) = some (true, .cmdSend, .idle, .loop, 18) := by
    decide
  rw [hs] at h
  simp only [Option.map_some, Option.some.injEq, Prod.mk.injEq] at h
  obtain ⟨h1, h2, h3, h4, h5⟩ := h
  refine ⟨s, reachable_runLabels _ Reachable.init hs, Or.inl h1, ?_, h4, h2, h5⟩
  simp [NoCallback, h2, h3]

/-- the interrupt wins the race instead: ErrInterrupted -/
example : (runLabels (init cfg)
    [.signal true, .elRecvSig, .runTail, .shCancel none, .dispExit, .resizeExit, .shHandlers none,
     .shReader none, .shRenderer none, .shRestore none, .runReturn]).map obs
    = some (.returned, .interrupted, 1, true) := by
  decide

/-- a read error ends the program with the reader's error; EOF (second example) does not end
it: afterwards nothing but the read loop has changed and no termination step is enabled -/
example : (runLabels (init cfg)
    [.readError, .elRecvErr, .runTail, .shCancel none, .dispExit, .sigExit, .resizeExit,
     .shHandlers none, .shReader none, .shRenderer none, .shRestore none,
     .runReturn]).map obs = some (.returned, .reader, 1, true) := by
  decide

example : (runLabels (init cfg) [.readEOF]).map (fun s => (s.el, s.ctxDone, s.runPc, s.killers, s.reader))
    = some (.select, false, .loop, [], .exited) ∧
    (runLabels (init cfg) [.readEOF, .elCtxExit]).isSome = false ∧
    (runLabels (init cfg) [.readEOF, .runTail]).isSome = false := by
  decide

end Tea.Props.C04
