import Tea.Props.C06
import Tea.Proofs.Quit
import Tea.Proofs.Kill
/-
C07 — On quit the final model's view is on screen, whatever the timing.

"When a program ends through a quit message, the view of the final model is what the
terminal shows when Run returns - even if no frame tick has elapsed since the last update
and however many intermediate views were coalesced - with every newline-terminated line of
that view left in place and the cursor parked at the first column of the line after them; no
later view is ever replaced by an earlier one."

Mechanism in the code: when the event loop ends by a quit, Run writes the final view
(`write`) and calls `shutdown(false)`, whose renderer part is `stop` = `flush`, then erase the
cursor line (EL2) and carriage return (the order of these calls is pinned by the bridge facts
of `Tea/Props/Bridge/C07.lean`).  The theorems connect the renderer model
(`Tea/Render/Model.lean`) with the terminal model (`Tea/VT/Term.lean`), with the vocabulary of
C06 (`Tea/Props/C06.lean`): `InlineInv r t`, `viewTop r t`, `b.row w R`,
`padLine w (Ansi.visible l)` (what a row shows of line `l`: its visible part, cut and padded).

What "newline-terminated line" means here: the frame `frameLines (write r s)` is
`strings.Split(view, "\n")` cut to the last `height` lines; all of its lines but the last are
followed by a "\n" in the view.  A view that ends with "\n" has an empty last frame line, so
nothing of it is lost (`C07_quit_inline_terminated`); a view that does not has its unterminated
last line erased by the EL2 — exactly what the property says.

Quitting while the terminal is released (section 4): ReleaseTerminal has already called `stop`
once; Run's shutdown calls it again after the final `write`.  `stop` invalidates the renderer's
caches after erasing the cursor line (`standardRenderer.stop` calls `repaint`), so the inline
invariant holds after a stop (`C07_stop_inv`) and the second stop paints every line of the final
view in place (`C07_quit_released`); the concrete runs of section 5 show the final view losing a
line with the `stop` that left the caches valid.

A Kill that loses the race to a quit (section 4b): `Program.Kill` calls the renderer's `kill` — EL2
and CR with NO flush — and Run's own shutdown may still do the final `write` and `stop` afterwards.
`kill` invalidates the caches like `stop` does (`standardRenderer.kill` calls `repaint`), so the
inline invariant holds after a kill (`C07_kill_inv`) and Run's `stop` paints every line of the final
view in place (`C07_quit_after_kill`); the last concrete run of section 5 shows the final view losing
the line of the erased cursor row with the `kill` that left the caches valid.

Limits: the theorems are about the inline (main screen) renderer with no printed lines queued;
on the alt screen `shutdown` leaves the alt screen right after `stop`, so what remains visible
is the restored main screen (C12).  Whether the bytes reach the terminal before Run returns
is the lifecycle part (C04: `shRenderer` precedes `shRestore` precedes `runReturn`).
Only property theorems live here; helper lemmas are in `Tea/Proofs/Quit.lean` and
`Tea/Proofs/Kill.lean`.
-/
namespace Tea.Props.C07
open Tea Tea.VT Tea.Render

/-! ### 1. timing: only the latest view is pending, and `stop` paints it -/

/-- A view written before the previous one was flushed REPLACES it: nothing of the earlier
view survives in the renderer. -/
theorem C07_write_replaces (r : RState) (a b : Bytes) : write (write r a) b = write r b :=
  write_write r a b

/-- COALESCING. However many views `vs` were written since the last frame tick, the pending
state is exactly that of writing the LAST of them alone - so the next flush (a tick, or the
one inside `stop`) produces the same renderer state and the same terminal output as if only
the last view had ever been written. -/
theorem C07_coalesced (r : RState) (vs : List Bytes) (h : vs ≠ []) :
    vs.foldl write r = write r (vs.getLast h) ∧
    flush (vs.foldl write r) = flush (write r (vs.getLast h)) ∧
    stop (vs.foldl write r) = stop (write r (vs.getLast h)) := by
  have e := foldl_write_getLast vs h r
  exact ⟨e, by rw [e], by rw [e]⟩

/-- NO TICK NEEDED. `stop` flushes first: whatever is pending is painted by `stop` itself,
before the cursor line is erased (EL2) and the cursor returned to column 0 (CR).  The final
view does not depend on a frame tick having elapsed. -/
theorem C07_stop_flushes_first (r : RState) :
    stop r = ((flush r).1.repaint, (flush r).2 ++ [.el2, .cr]) :=
  stop_eq r
/- Statement before the repair of `standardRenderer.stop` (now FALSE: the state after `stop` is the
   state after the flush with `lastRender := []`, `lastLines := none`; what is written is unchanged):
     theorem C07_stop_flushes_first (r : RState) :
         stop r = ((flush r).1, (flush r).2 ++ [.el2, .cr]) -/

/-- the same as a renderer step -/
theorem C07_stop_step (r : RState) :
    step r .stop = ((step r .flush).1.repaint, (step r .flush).2 ++ [.el2, .cr]) :=
  stop_eq r
/- Statement before the repair (now FALSE, for the same reason):
     theorem C07_stop_step (r : RState) :
         step r .stop = ((step r .flush).1, (step r .flush).2 ++ [.el2, .cr]) -/

/-- WHAT `stop` WRITES is the flush and then EL2, CR, exactly; and the renderer state after `stop`
is the state after that flush except for the two caches, which are invalidated (`lastRender = []`,
`lastLines = none`): every other field — `linesRendered` in particular — is as the flush left it. -/
theorem C07_stop_writes_and_state (r : RState) :
    (stop r).2 = (flush r).2 ++ [.el2, .cr] ∧
    (stop r).1 = { (flush r).1 with lastRender := [], lastLines := none } :=
  ⟨rfl, rfl⟩

/-! ### 2. what the terminal shows after `write s; stop` -/

/-- **THE FINAL VIEW IS ON SCREEN (inline).**  If renderer and terminal satisfy the inline
invariant of C06 and no printed lines are queued, then after Run's final `write s` and `stop`
(flush, EL2, CR), with `ls` the frame of `s` (`n` lines, `1 ≤ n ≤ h`) and `R0 = viewTop r t` the
tape row where the view starts (unchanged):

(a) every newline-terminated line is in place: for `i + 1 < n`, row `R0 + i` shows `ls[i]` (its
    visible part: escape sequences take no cell) cut at the width and padded with blanks;
(b) the cursor is on row `R0 + n - 1` - the line after the `n - 1` terminated lines - in
    column 0 with no pending wrap;
(c) that row is blank (EL2 erased the unterminated last line, if there was one);
(d) every window row below the cursor is blank: nothing of any earlier view remains;
(e) every row above `R0` is untouched; the window scrolled by exactly what the view needed; the
    alt screen and the size are untouched. -/
theorem C07_quit_inline (r : RState) (t : Term) (hinv : InlineInv r t) (hq : r.queued = [])
    (s : Bytes) (t' : Term) (ht' : t' = applyOps t (stop (write r s)).2) :
    1 ≤ (frameLines (write r s)).length ∧ (frameLines (write r s)).length ≤ t.h ∧
    (∀ i l, i + 1 < (frameLines (write r s)).length → (frameLines (write r s))[i]? = some l →
      t'.main.row t.w (viewTop r t + i) = padLine t.w (Ansi.visible l)) ∧
    t'.main.cr + 1 = viewTop r t + (frameLines (write r s)).length ∧
    t'.main.cc = 0 ∧ t'.main.pw = false ∧
    t'.main.row t.w t'.main.cr = List.replicate t.w 32 ∧
    (∀ ρ, t'.main.cr < ρ → ρ < t'.main.top + t.h → t'.main.row t.w ρ = List.replicate t.w 32) ∧
    (∀ ρ, ρ < viewTop r t → ∀ c, t'.main.cells ρ c = t.main.cells ρ c) ∧
    t'.main.top = max t.main.top (viewTop r t + (frameLines (write r s)).length - t.h) ∧
    t'.alt = t.alt ∧ t'.w = t.w ∧ t'.h = t.h ∧ t'.onAlt = false := by
  obtain ⟨a1, _, a3, a4, a5, a6, _, _, a9, a10, a11, a12⟩ :=
    C06.C06_inline_flush r t hinv hq s _ _ rfl rfl
  rw [stop_eq, applyOps_append] at ht'
  obtain ⟨b1, b2, b3, b4, b5, b6, b7, b8, b9⟩ := eraseLine_term _ a1.onAlt t' ht'
  have hn1 : 1 ≤ (frameLines (write r s)).length := by
    rw [frameLines_eq]; exact frameOf_length_pos _ _
  have hnh : (frameLines (write r s)).length ≤ t.h := by
    rw [frameLines_eq]
    have := hinv.height
    show (frameOf r.height _).length ≤ t.h
    rw [← this]
    exact frameOf_length_le _ _ (by have := hinv.hpos; omega)
  rw [a4] at b9
  refine ⟨hn1, hnh, ?_, by rw [b6]; exact a6, b7, b8, ?_, ?_, ?_, by rw [b5]; exact a12,
    by rw [b4]; exact a3, by rw [b2]; exact a4, by rw [b3]; exact a5, b1⟩
  · intro i l hi hl
    rw [← a9 i l hl]
    apply Buf.row_congr
    intro c
    rw [b9, if_neg (by intro hh; omega)]
  · apply (rowBlank_iff_row _ _ _).1
    intro c hc
    rw [b9, b6, if_pos ⟨rfl, hc⟩]
  · intro ρ h1 h2
    rw [b6] at h1
    rw [b5] at h2
    rw [← a10 ρ h1 h2]
    apply Buf.row_congr
    intro c
    rw [b9, if_neg (by intro hh; omega)]
  · intro ρ hρ c
    rw [b9, if_neg (by intro hh; omega)]
    exact a11 ρ hρ c

/-- **A VIEW THAT ENDS WITH A NEWLINE IS ON SCREEN COMPLETELY.**  If the final view is
`v ++ "\n"`, its lines are the lines of `v` followed by one empty line, the last frame line is
that empty line, and after `write; stop` EVERY frame line - the blank last one included - is on
its row: the EL2 of `stop` erased nothing, and the cursor is on the (blank) row right after
the last line of `v`. -/
theorem C07_quit_inline_terminated (r : RState) (t : Term) (hinv : InlineInv r t)
    (hq : r.queued = []) (v : Bytes) (t' : Term)
    (ht' : t' = applyOps t (stop (write r (v ++ [10]))).2) :
    splitLines (v ++ [10]) = splitLines v ++ [[]] ∧
    (frameLines (write r (v ++ [10]))).getLast? = some [] ∧
    (∀ i l, (frameLines (write r (v ++ [10])))[i]? = some l →
      t'.main.row t.w (viewTop r t + i) = padLine t.w (Ansi.visible l)) ∧
    t'.main.cr + 1 = viewTop r t + (frameLines (write r (v ++ [10]))).length ∧
    t'.main.cc = 0 ∧ t'.main.pw = false := by
  obtain ⟨c1, _, c3, c4, c5, c6, c7, _⟩ := C07_quit_inline r t hinv hq (v ++ [10]) t' ht'
  have hw : write r (v ++ [10]) = { r with buf := v ++ [10] } := by
    cases v <;> rfl
  have hlast : (frameLines (write r (v ++ [10]))).getLast? = some [] := by
    rw [frameLines_eq, hw]; exact frameOf_snoc_nl_getLast _ _
  refine ⟨splitLines_snoc_nl v, hlast, ?_, c4, c5, c6⟩
  intro i l hl
  by_cases hi : i + 1 < (frameLines (write r (v ++ [10]))).length
  · exact c3 i l hi hl
  · have hlt : i < (frameLines (write r (v ++ [10]))).length := by
      rcases List.getElem?_eq_some_iff.1 hl with ⟨h, _⟩; exact h
    have hie : i = (frameLines (write r (v ++ [10]))).length - 1 := by omega
    rw [List.getLast?_eq_getElem?, ← hie, hl] at hlast
    cases hlast
    have hrow : viewTop r t + i = t'.main.cr := by omega
    rw [hrow, c7]
    simp [padLine, Ansi.visible, Ansi.visibleFrom]

/-! ### 3. no later view is replaced by an earlier one -/

/-- THE CACHE IS THE LATEST FRAME.  After a flush of a pending view the renderer's cache
(`lastRender`, against which the next flush decides whether anything is to be done) is that
view - whether the flush painted or found it byte-identical to what was already shown. -/
theorem C07_cache_is_latest (r : RState) (s : Bytes) :
    (flush (write r s)).1.lastRender = (write r s).buf ∧ (flush (write r s)).1.buf = [] ∨
    (write r s).buf = r.lastRender ∧ flush (write r s) = (write r s, []) := by
  cases hsame : ((write r s).buf == r.lastRender) with
  | true =>
    right
    exact ⟨by simpa using hsame, flush_noop _ (by
      show ((write r s).buf.isEmpty || (write r s).buf == r.lastRender) = true
      simp [hsame])⟩
  | false =>
    left
    have hne : ((write r s).buf.isEmpty || (write r s).buf == (write r s).lastRender) = false := by
      have : (write r s).buf.isEmpty = false := by
        cases hb : (write r s).buf with
        | nil => exact absurd hb (write_buf_ne r s)
        | cons _ _ => rfl
      show ((write r s).buf.isEmpty || (write r s).buf == r.lastRender) = false
      simp [this, hsame]
    rw [flush_state _ hne]
    exact ⟨rfl, rfl⟩

/-- ... in both cases the cache after the flush is the view just written -/
theorem C07_cache_after_flush (r : RState) (s : Bytes) :
    (flush (write r s)).1.lastRender = (write r s).buf :=
  flush_lastRender _ (write_buf_ne r s)

/-- **NO REGRESSION.**  `write a; flush; write b; flush` from the inline invariant: after the
second flush the screen shows the frame of `b` - the LATER view - at the same place, whatever
`a` was (taller, shorter, equal in some lines, identical): view row `i` is line `i` of `b`'s
frame, every window row below the cursor is blank (nothing of `a` is left), rows above the view
are as they were before both renders. -/
theorem C07_no_regress (r : RState) (t : Term) (hinv : InlineInv r t) (hq : r.queued = [])
    (a b : Bytes) (r1 r2 : RState) (t1 t2 : Term)
    (hr1 : r1 = (flush (write r a)).1) (ht1 : t1 = applyOps t (flush (write r a)).2)
    (hr2 : r2 = (flush (write r1 b)).1) (ht2 : t2 = applyOps t1 (flush (write r1 b)).2) :
    InlineInv r2 t2 ∧ frameLines (write r1 b) = frameLines (write r b) ∧
    t2.main.cr + 1 = viewTop r t + (frameLines (write r b)).length ∧
    t2.main.cc = 0 ∧ t2.main.pw = false ∧
    (∀ i l, (frameLines (write r b))[i]? = some l →
      t2.main.row t.w (viewTop r t + i) = padLine t.w (Ansi.visible l)) ∧
    (∀ ρ, t2.main.cr < ρ → ρ < t2.main.top + t.h → t2.main.row t.w ρ = List.replicate t.w 32) ∧
    (∀ ρ, ρ < viewTop r t → ∀ c, t2.main.cells ρ c = t.main.cells ρ c) ∧
    r2.lastRender = (write r b).buf := by
  obtain ⟨a1, a2, _, a4, a5, _, _, _, _, _, a11, _⟩ :=
    C06.C06_inline_flush r t hinv hq a r1 t1 hr1 ht1
  obtain ⟨b1, _, _, _, _, b6, b7, b8, b9, b10, b11, _⟩ :=
    C06.C06_inline_flush r1 t1 a1 a2 b r2 t2 hr2 ht2
  have hvt : viewTop r1 t1 = viewTop r t := by
    rw [hr1, ht1]; exact inline_flush_viewTop r t hinv hq a
  have hh : r1.height = r.height := by rw [hr1]; exact (flush_size (write r a)).2.1
  have hf : frameLines (write r1 b) = frameLines (write r b) := frameLines_write_congr r r1 b hh
  rw [hvt, hf] at b6 b9
  rw [a4] at b9 b10
  rw [a5] at b10
  rw [hvt] at b11
  refine ⟨b1, hf, b6, b7, b8, b9, b10, ?_, ?_⟩
  · intro ρ hρ c
    rw [b11 ρ hρ c, a11 ρ hρ c]
  · rw [hr2]; exact C07_cache_after_flush r1 b

/-- **THE FINAL VIEW AFTER ANY HISTORY.**  After ANY sequence `vs` of rendered views (each
written and flushed: skipping, repainting, growing, shrinking, scrolling), Run's final
`write s; stop` leaves the terminal showing the frame of the FINAL view `s` as described in
`C07_quit_inline`: terminated lines in place from the row where the first view started, cursor
at the start of the (blank) row after them, nothing below, rows above untouched by the whole
history. -/
theorem C07_quit_after_history (r : RState) (t : Term) (hinv : InlineInv r t) (hq : r.queued = [])
    (vs : List Bytes) (s : Bytes) (r1 : RState) (t1 t' : Term)
    (hr1 : r1 = (renderViews r t vs).1) (ht1 : t1 = (renderViews r t vs).2)
    (ht' : t' = applyOps t1 (stop (write r1 s)).2) :
    frameLines (write r1 s) = frameLines (write r s) ∧
    (∀ i l, i + 1 < (frameLines (write r s)).length → (frameLines (write r s))[i]? = some l →
      t'.main.row t.w (viewTop r t + i) = padLine t.w (Ansi.visible l)) ∧
    t'.main.cr + 1 = viewTop r t + (frameLines (write r s)).length ∧
    t'.main.cc = 0 ∧ t'.main.pw = false ∧
    t'.main.row t.w t'.main.cr = List.replicate t.w 32 ∧
    (∀ ρ, t'.main.cr < ρ → ρ < t'.main.top + t.h → t'.main.row t.w ρ = List.replicate t.w 32) ∧
    (∀ ρ, ρ < viewTop r t → ∀ c, t'.main.cells ρ c = t.main.cells ρ c) := by
  obtain ⟨a1, a2, a3, a4, a5, a6, _, a8⟩ := renderViews_inv vs r t hinv hq
  subst hr1 ht1
  obtain ⟨_, _, c3, c4, c5, c6, c7, c8, c9, _⟩ := C07_quit_inline _ _ a1 a2 s t' ht'
  have hf := frameLines_write_congr r _ s a6
  rw [hf, a3, a4] at c3
  rw [hf, a3] at c4
  rw [a4] at c7
  rw [a4, a5] at c8
  rw [a3] at c9
  refine ⟨hf, c3, c4, c5, c6, c7, c8, ?_⟩
  intro ρ hρ c
  rw [c9 ρ hρ c, a8 ρ hρ c]

/-! ### 4. the program quits while its terminal is released (a second `stop` after a `stop`) -/

/-- **AFTER `stop` THE RENDERER AND THE TERMINAL AGREE AGAIN.**  ReleaseTerminal (and every
shutdown) stops the renderer: flush, EL2, CR, caches invalidated.  From the inline invariant with
no printed lines queued, after `stop`: the inline invariant HOLDS AGAIN; nothing is queued; both
caches are invalid (`lastRender = []`, `lastLines = none`), so the next flush of any view can skip
no line; `linesRendered` is what the flush left — it still counts the erased cursor row —, hence
the view still starts at `viewTop r t` and the cursor is on the last of the `max linesRendered 1`
view rows, in column 0 with no pending wrap; that row is blank; rows above the view, the alt screen
and the size are untouched.  (With the caches left valid, as before the repair, the invariant
would be false here: the cache would claim that the erased row still shows its line.) -/
theorem C07_stop_inv (r : RState) (t : Term) (hinv : InlineInv r t) (hq : r.queued = [])
    (r1 : RState) (t1 : Term) (hr1 : r1 = (stop r).1) (ht1 : t1 = applyOps t (stop r).2) :
    InlineInv r1 t1 ∧ r1.queued = [] ∧ r1.lastRender = [] ∧ r1.lastLines = none ∧
    r1.linesRendered = (flush r).1.linesRendered ∧ r1.height = r.height ∧ r1.width = r.width ∧
    viewTop r1 t1 = viewTop r t ∧ t1.alt = t.alt ∧ t1.w = t.w ∧ t1.h = t.h ∧
    t1.main.cr + 1 = viewTop r t + max r1.linesRendered 1 ∧
    t1.main.cc = 0 ∧ t1.main.pw = false ∧
    t1.main.row t.w t1.main.cr = List.replicate t.w 32 ∧
    (∀ ρ, ρ < viewTop r t → ∀ c, t1.main.cells ρ c = t.main.cells ρ c) := by
  obtain ⟨a1, a2, a3, a4, a5, a6, a7, a8, a9, a10, a11, a12, a13, a14, a15, a16⟩ :=
    inline_stop_inv r t hinv hq r1 t1 hr1 ht1
  exact ⟨a1, a2, a3, a4, a5, a6, a7, a8, a9, a10, a11, a12, a13, a14,
    (rowBlank_iff_row _ _ _).1 a15, a16⟩

/-- **THE PROGRAM QUITS WHILE ITS TERMINAL IS RELEASED.**  From the inline invariant with no
printed lines queued: `stop` (ReleaseTerminal: flush, erase the cursor line) gives `r1`, `t1`; the
model keeps updating while released and Run's shutdown does `write r1 s` and a SECOND `stop`.
With `ls` the frame of `s` (`n` lines, `1 ≤ n ≤ h`) and `R0 = viewTop r t` the tape row where the
view started before the release:

(o) the second stop's flush prints EVERY line of the frame (cut at the width) — no line is
    skipped as "unchanged", in particular not the line of the cursor row that the first stop
    erased: the caches are invalid after the first stop;
(a) every newline-terminated line is in place: for `i + 1 < n`, row `R0 + i` shows `ls[i]` (its
    visible part) cut at the width and padded with blanks — from the SAME first view row;
(b) the cursor is on row `R0 + n - 1`, in column 0 with no pending wrap;
(c) that row is blank (EL2 erased the unterminated last line, if there was one);
(d) every window row below the cursor is blank: nothing stale of the view shown before the
    release remains;
(e) every row above `R0` is as it was before the FIRST stop; the window scrolled, from where the
    first stop left it, by exactly what the view needed; the alt screen and the size are untouched.

This is `C07_quit_inline` for the second of two stops; it rests on `C07_stop_inv`. -/
theorem C07_quit_released (r : RState) (t : Term) (hinv : InlineInv r t) (hq : r.queued = [])
    (s : Bytes) (r1 : RState) (t1 t' : Term)
    (hr1 : r1 = (stop r).1) (ht1 : t1 = applyOps t (stop r).2)
    (ht' : t' = applyOps t1 (stop (write r1 s)).2) :
    frameLines (write r1 s) = frameLines (write r s) ∧
    (∀ l, l ∈ frameLines (write r s) →
      TermOp.text (if r.width > 0 then truncateLine r.width l else l) ∈ (stop (write r1 s)).2) ∧
    1 ≤ (frameLines (write r s)).length ∧ (frameLines (write r s)).length ≤ t.h ∧
    (∀ i l, i + 1 < (frameLines (write r s)).length → (frameLines (write r s))[i]? = some l →
      t'.main.row t.w (viewTop r t + i) = padLine t.w (Ansi.visible l)) ∧
    t'.main.cr + 1 = viewTop r t + (frameLines (write r s)).length ∧
    t'.main.cc = 0 ∧ t'.main.pw = false ∧
    t'.main.row t.w t'.main.cr = List.replicate t.w 32 ∧
    (∀ ρ, t'.main.cr < ρ → ρ < t'.main.top + t.h → t'.main.row t.w ρ = List.replicate t.w 32) ∧
    (∀ ρ, ρ < viewTop r t → ∀ c, t'.main.cells ρ c = t.main.cells ρ c) ∧
    t'.main.top = max t1.main.top (viewTop r t + (frameLines (write r s)).length - t.h) ∧
    t'.alt = t.alt ∧ t'.w = t.w ∧ t'.h = t.h ∧ t'.onAlt = false := by
  obtain ⟨a1, a2, a3, a4, _, a6, a7, a8, a9, a10, a11, _, _, _, _, a16⟩ :=
    C07_stop_inv r t hinv hq r1 t1 hr1 ht1
  obtain ⟨c1, c2, c3, c4, c5, c6, c7, c8, c9, c10, c11, c12, c13, c14⟩ :=
    C07_quit_inline r1 t1 a1 a2 s t' ht'
  have hf : frameLines (write r1 s) = frameLines (write r s) := frameLines_write_congr r r1 s a6
  rw [hf] at c1 c2 c3 c4 c10
  rw [a8] at c3 c4 c9 c10
  rw [a10] at c3 c7 c8 c12
  rw [a11] at c2 c8 c10 c13
  refine ⟨hf, ?_, c1, c2, c3, c4, c5, c6, c7, c8, ?_, c10, by rw [c11, a9], c12, c13, c14⟩
  · intro l hl
    rw [stop_ops]
    apply List.mem_append_left
    have := flush_prints_all (write r1 s) (write_buf_ne r1 s) a3 a4 l (by rw [hf]; exact hl)
    rw [← a7]
    exact this
  · intro ρ hρ c
    rw [c9 ρ hρ c, a16 ρ hρ c]

/-- ... and a view that ends with a newline is on screen completely after the second stop too:
every frame line — the blank last one included — is on its row, from the same first view row. -/
theorem C07_quit_released_terminated (r : RState) (t : Term) (hinv : InlineInv r t)
    (hq : r.queued = []) (v : Bytes) (r1 : RState) (t1 t' : Term)
    (hr1 : r1 = (stop r).1) (ht1 : t1 = applyOps t (stop r).2)
    (ht' : t' = applyOps t1 (stop (write r1 (v ++ [10]))).2) :
    (frameLines (write r (v ++ [10]))).getLast? = some [] ∧
    (∀ i l, (frameLines (write r (v ++ [10])))[i]? = some l →
      t'.main.row t.w (viewTop r t + i) = padLine t.w (Ansi.visible l)) ∧
    t'.main.cr + 1 = viewTop r t + (frameLines (write r (v ++ [10]))).length ∧
    t'.main.cc = 0 ∧ t'.main.pw = false := by
  obtain ⟨a1, a2, _, _, _, a6, _, a8, _, a10, _⟩ := C07_stop_inv r t hinv hq r1 t1 hr1 ht1
  obtain ⟨_, c2, c3, c4, c5, c6⟩ := C07_quit_inline_terminated r1 t1 a1 a2 v t' ht'
  have hf : frameLines (write r1 (v ++ [10])) = frameLines (write r (v ++ [10])) :=
    frameLines_write_congr r r1 _ a6
  rw [hf] at c2 c3 c4
  rw [a8] at c3 c4
  rw [a10] at c3
  exact ⟨c2, c3, c4, c5, c6⟩

/-! ### 4b. a Kill loses the race to a quit (Run's `stop` after a `kill`) -/

/-- **AFTER `kill` THE RENDERER AND THE TERMINAL AGREE AGAIN.**  `Program.Kill` kills the renderer:
EL2, CR, caches invalidated — and NO flush.  From the inline invariant (printed lines may be queued,
a view may be pending: neither is touched), after `kill`: the inline invariant HOLDS AGAIN; the
pending view `buf` and the queued lines are as they were — nothing was flushed —; both caches are
invalid (`lastRender = []`, `lastLines = none`), so the next flush of any view can skip no line;
`linesRendered`, the size, the window (`top`) and the cursor row are unchanged, hence the view still
starts at `viewTop r t` and the cursor is on the last of the `max linesRendered 1` view rows, in
column 0 with no pending wrap; that row is blank; EVERY other tape row — above the view, in the view,
below it — is untouched, and so are the alt screen and the size.

The difference from `C07_stop_inv`: the terminal does NOT show the pending view.  It shows the view
rendered LAST minus its cursor row: if `ls` was the line cache before the kill (the frame the last
flush painted, `ls.length = linesRendered`), every line `ls[i]` with `i + 1 < ls.length` is still on
row `viewTop r t + i`; the last one, `ls[ls.length - 1]`, was on the cursor row and is erased.  (With
the caches left valid, as before the repair, the invariant would be false here: the cache would
claim that the erased row still shows its line.) -/
theorem C07_kill_inv (r : RState) (t : Term) (hinv : InlineInv r t)
    (r1 : RState) (t1 : Term) (hr1 : r1 = (kill r).1) (ht1 : t1 = applyOps t (kill r).2) :
    InlineInv r1 t1 ∧ r1.queued = r.queued ∧ r1.buf = r.buf ∧
    r1.lastRender = [] ∧ r1.lastLines = none ∧
    r1.linesRendered = r.linesRendered ∧ r1.height = r.height ∧ r1.width = r.width ∧
    viewTop r1 t1 = viewTop r t ∧ t1.alt = t.alt ∧ t1.w = t.w ∧ t1.h = t.h ∧
    t1.main.top = t.main.top ∧ t1.main.cr = t.main.cr ∧
    t1.main.cr + 1 = viewTop r t + max r1.linesRendered 1 ∧
    t1.main.cc = 0 ∧ t1.main.pw = false ∧
    t1.main.row t.w t1.main.cr = List.replicate t.w 32 ∧
    (∀ ρ, ρ ≠ t.main.cr → ∀ c, t1.main.cells ρ c = t.main.cells ρ c) ∧
    (∀ ρ, ρ < viewTop r t → ∀ c, t1.main.cells ρ c = t.main.cells ρ c) ∧
    (∀ ls, r.lastLines = some ls → ls.length = r.linesRendered ∧
      ∀ i l, i + 1 < ls.length → ls[i]? = some l →
        t1.main.row t.w (viewTop r t + i) = padLine t.w (Ansi.visible l)) := by
  obtain ⟨a1, a2, a3, a4, a5, a6, a7, a8, a9, a10, a11, a12, a13, a14, a15, a16, a17, a18, a19,
    a20⟩ := inline_kill_inv r t hinv r1 t1 hr1 ht1
  refine ⟨a1, a2, a3, a4, a5, a6, a7, a8, a9, a10, a11, a12, a13, a14, by rw [a6]; exact a15,
    a16, a17, (rowBlank_iff_row _ _ _).1 a18, a19, ?_, ?_⟩
  · intro ρ hρ c
    have := hinv.inside.1
    exact a19 ρ (by unfold viewTop at hρ; omega) c
  · intro ls hls
    obtain ⟨b1, b2⟩ := a20 ls hls
    exact ⟨b1, fun i l hi hl => (rowShows_iff_row _ _ _ _).1 (b2 i l hi hl)⟩

/-- **A KILL LOSES THE RACE TO A QUIT.**  From the inline invariant with no printed lines queued:
`kill` (`Program.Kill`: erase the cursor line, NO flush) gives `r1`, `t1`; the event loop has already
ended by a quit, and Run's own shutdown still does `write r1 s` and `stop`.  With `ls` the frame of
the final view `s` (`n` lines, `1 ≤ n ≤ h`) and `R0 = viewTop r t` the tape row where the view
started before the kill:

(o) the stop's flush prints EVERY line of the frame (cut at the width) — no line is skipped as
    "unchanged", in particular not the line of the cursor row that the kill erased: the caches are
    invalid after the kill;
(a) every newline-terminated line is in place: for `i + 1 < n`, row `R0 + i` shows `ls[i]` (its
    visible part) cut at the width and padded with blanks — from the SAME first view row;
(b) the cursor is on row `R0 + n - 1`, in column 0 with no pending wrap;
(c) that row is blank (EL2 erased the unterminated last line, if there was one);
(d) every window row below the cursor is blank: nothing stale of the view shown before the kill
    remains;
(e) every row above `R0` is as it was before the kill; the window scrolled, from where the kill
    left it (which is where it was: `t1.main.top = t.main.top`), by exactly what the view needed;
    the alt screen and the size are untouched.

This is `C07_quit_inline` for a `stop` after a `kill`; it rests on `C07_kill_inv`. -/
theorem C07_quit_after_kill (r : RState) (t : Term) (hinv : InlineInv r t) (hq : r.queued = [])
    (s : Bytes) (r1 : RState) (t1 t' : Term)
    (hr1 : r1 = (kill r).1) (ht1 : t1 = applyOps t (kill r).2)
    (ht' : t' = applyOps t1 (stop (write r1 s)).2) :
    frameLines (write r1 s) = frameLines (write r s) ∧
    (∀ l, l ∈ frameLines (write r s) →
      TermOp.text (if r.width > 0 then truncateLine r.width l else l) ∈ (stop (write r1 s)).2) ∧
    1 ≤ (frameLines (write r s)).length ∧ (frameLines (write r s)).length ≤ t.h ∧
    (∀ i l, i + 1 < (frameLines (write r s)).length → (frameLines (write r s))[i]? = some l →
      t'.main.row t.w (viewTop r t + i) = padLine t.w (Ansi.visible l)) ∧
    t'.main.cr + 1 = viewTop r t + (frameLines (write r s)).length ∧
    t'.main.cc = 0 ∧ t'.main.pw = false ∧
    t'.main.row t.w t'.main.cr = List.replicate t.w 32 ∧
    (∀ ρ, t'.main.cr < ρ → ρ < t'.main.top + t.h → t'.main.row t.w ρ = List.replicate t.w 32) ∧
    (∀ ρ, ρ < viewTop r t → ∀ c, t'.main.cells ρ c = t.main.cells ρ c) ∧
    t'.main.top = max t1.main.top (viewTop r t + (frameLines (write r s)).length - t.h) ∧
    t1.main.top = t.main.top ∧
    t'.alt = t.alt ∧ t'.w = t.w ∧ t'.h = t.h ∧ t'.onAlt = false := by
  obtain ⟨a1, a2, _, a4, a5, _, a7, a8, a9, a10, a11, a12, a13, _, _, _, _, _, _, a20, _⟩ :=
    C07_kill_inv r t hinv r1 t1 hr1 ht1
  rw [hq] at a2
  obtain ⟨c1, c2, c3, c4, c5, c6, c7, c8, c9, c10, c11, c12, c13, c14⟩ :=
    C07_quit_inline r1 t1 a1 a2 s t' ht'
  have hf : frameLines (write r1 s) = frameLines (write r s) := frameLines_write_congr r r1 s a7
  rw [hf] at c1 c2 c3 c4 c10
  rw [a9] at c3 c4 c9 c10
  rw [a11] at c3 c7 c8 c12
  rw [a12] at c2 c8 c10 c13
  refine ⟨hf, ?_, c1, c2, c3, c4, c5, c6, c7, c8, ?_, c10, a13, by rw [c11, a10], c12, c13, c14⟩
  · intro l hl
    rw [stop_ops]
    apply List.mem_append_left
    have := flush_prints_all (write r1 s) (write_buf_ne r1 s) a4 a5 l (by rw [hf]; exact hl)
    rw [← a8]
    exact this
  · intro ρ hρ c
    rw [c9 ρ hρ c, a20 ρ hρ c]

/-- ... and a view that ends with a newline is on screen completely after a `kill` and Run's `stop`
too: every frame line — the blank last one included — is on its row, from the same first view row. -/
theorem C07_quit_after_kill_terminated (r : RState) (t : Term) (hinv : InlineInv r t)
    (hq : r.queued = []) (v : Bytes) (r1 : RState) (t1 t' : Term)
    (hr1 : r1 = (kill r).1) (ht1 : t1 = applyOps t (kill r).2)
    (ht' : t' = applyOps t1 (stop (write r1 (v ++ [10]))).2) :
    (frameLines (write r (v ++ [10]))).getLast? = some [] ∧
    (∀ i l, (frameLines (write r (v ++ [10])))[i]? = some l →
      t'.main.row t.w (viewTop r t + i) = padLine t.w (Ansi.visible l)) ∧
    t'.main.cr + 1 = viewTop r t + (frameLines (write r (v ++ [10]))).length ∧
    t'.main.cc = 0 ∧ t'.main.pw = false := by
  obtain ⟨a1, a2, _, _, _, _, a7, _, a9, _, a11, _⟩ := C07_kill_inv r t hinv r1 t1 hr1 ht1
  rw [hq] at a2
  obtain ⟨_, c2, c3, c4, c5, c6⟩ := C07_quit_inline_terminated r1 t1 a1 a2 v t' ht'
  have hf : frameLines (write r1 (v ++ [10])) = frameLines (write r (v ++ [10])) :=
    frameLines_write_congr r r1 _ a7
  rw [hf] at c2 c3 c4
  rw [a9] at c3 c4
  rw [a11] at c3
  exact ⟨c2, c3, c4, c5, c6⟩

/-! ### 5. concrete runs (non-vacuity), W = 10, H = 5, inline, cursor on window row 0 -/

def r0 : RState := { width := 10, height := 5 }
def t0 : Term := { w := 10, h := 5 }

/-- the initial pair satisfies the inline invariant (nothing rendered, blank screen) -/
example : InlineInv r0 t0 :=
  ⟨rfl, rfl, rfl, rfl, by decide, by decide, ⟨rfl, rfl⟩, by decide,
    fun _ _ _ _ _ => rfl, fun _ h => by simp [r0] at h, fun h => by simp [r0] at h⟩

/-- tape rows `0 .. k-1` of the main screen -/
def rows (t : Term) (k : Nat) : List Bytes := (List.range k).map (fun i => t.main.row t.w i)

/-- the terminal after rendering the views `vs` (write + flush each) and then quitting with the
final view `s` (write + stop) -/
def quitWith (vs : List Bytes) (s : Bytes) : Term :=
  applyOps (renderViews r0 t0 vs).2 (stop (write (renderViews r0 t0 vs).1 s)).2

/-- three views written between two ticks, then `stop`: only the last one counts -/
example : stop ([[120], [121, 10, 121], [97, 97, 97, 10, 98, 98, 98, 10]].foldl write r0) =
    stop (write r0 [97, 97, 97, 10, 98, 98, 98, 10]) := by decide

set_option maxRecDepth 100000 in
/-- the earlier view "xxx\nyyy\nzzz" was rendered; the final view "aaa\nbbb\n" was written and
no tick elapsed before `stop`: rows "aaa", "bbb", row 2 blank (the old "zzz" is gone), cursor at
the start of row 2 -/
example :
    let t' := quitWith [[120,120,120,10,121,121,121,10,122,122,122]] [97,97,97,10,98,98,98,10]
    rows t' 5 =
      [[97,97,97,32,32,32,32,32,32,32], [98,98,98,32,32,32,32,32,32,32],
       List.replicate 10 32, List.replicate 10 32, List.replicate 10 32] ∧
    t'.main.cr = 2 ∧ t'.main.cc = 0 ∧ t'.main.pw = false ∧ t'.main.top = 0 := by decide

set_option maxRecDepth 100000 in
/-- what `stop` wrote in that run: CUU 2, "aaa" + EL0, CR LF, "bbb" + EL0, CR LF, the (empty) last
line + EL0 (which blanks the old "zzz"), CUB, then EL2 and CR -/
example :
    (stop (write (renderViews r0 t0 [[120,120,120,10,121,121,121,10,122,122,122]]).1
      [97,97,97,10,98,98,98,10])).2 =
    [.cuu 2, .text [97,97,97], .el0, .cr, .lf, .text [98,98,98], .el0, .cr, .lf,
     .text [], .el0, .cub 10, .el2, .cr] := by decide

set_option maxRecDepth 100000 in
/-- a final view WITHOUT a trailing newline, "aaa\nbbb": the terminated line "aaa" stays, the
unterminated "bbb" is erased by EL2 and the cursor is parked at the start of its row -/
example :
    let t' := quitWith [[120,120,120,10,121,121,121,10,122,122,122]] [97,97,97,10,98,98,98]
    rows t' 5 =
      [[97,97,97,32,32,32,32,32,32,32], List.replicate 10 32,
       List.replicate 10 32, List.replicate 10 32, List.replicate 10 32] ∧
    t'.main.cr = 1 ∧ t'.main.cc = 0 ∧ t'.main.pw = false := by decide

set_option maxRecDepth 100000 in
/-- no regression: "aaa\nbbb\nccc" then "aaa\nBBB" rendered in turn shows the later view only -/
example :
    let t' := (renderViews r0 t0 [[97,97,97,10,98,98,98,10,99,99,99], [97,97,97,10,66,66,66]]).2
    rows t' 5 =
      [[97,97,97,32,32,32,32,32,32,32], [66,66,66,32,32,32,32,32,32,32],
       List.replicate 10 32, List.replicate 10 32, List.replicate 10 32] ∧
    t'.main.cr = 1 ∧ t'.main.cc = 0 := by decide

/-! #### released, then quit -/

/-- the terminal after: the view `a` rendered (write + flush), `stop` (ReleaseTerminal), then the
view `b` written while released and a second `stop` (the quit) -/
def quitReleased (a b : Bytes) : Term :=
  let rt := renderViews r0 t0 [a]
  let r1 := (stop rt.1).1
  let t1 := applyOps rt.2 (stop rt.1).2
  applyOps t1 (stop (write r1 b)).2

set_option maxRecDepth 100000 in
/-- after the first stop (view "a\nb\nc" rendered, then released): rows "a", "b", the cursor row
(where "c" was) blank, cursor at its column 0; the renderer still counts 3 lines, caches invalid -/
example :
    let rt := renderViews r0 t0 [[97,10,98,10,99]]
    let r1 := (stop rt.1).1
    let t1 := applyOps rt.2 (stop rt.1).2
    rows t1 5 =
      [[97,32,32,32,32,32,32,32,32,32], [98,32,32,32,32,32,32,32,32,32],
       List.replicate 10 32, List.replicate 10 32, List.replicate 10 32] ∧
    t1.main.cr = 2 ∧ t1.main.cc = 0 ∧ t1.main.pw = false ∧
    r1.linesRendered = 3 ∧ r1.lastLines = none ∧ r1.lastRender = [] := by decide

set_option maxRecDepth 100000 in
/-- view "a\nb\nc" rendered, stop (release), then view "a\nb\nX\nd" written, stop again (quit):
rows "a", "b", "X"; the row of "d" is blank (erased by the second stop), cursor at its column 0 -/
example :
    let t' := quitReleased [97,10,98,10,99] [97,10,98,10,88,10,100]
    rows t' 5 =
      [[97,32,32,32,32,32,32,32,32,32], [98,32,32,32,32,32,32,32,32,32],
       [88,32,32,32,32,32,32,32,32,32], List.replicate 10 32, List.replicate 10 32] ∧
    t'.main.cr = 3 ∧ t'.main.cc = 0 ∧ t'.main.pw = false ∧ t'.main.top = 0 := by decide

set_option maxRecDepth 100000 in
/-- view "a\nb\nc" rendered, stop (release), then view "a\nb\nc\nd" written, stop again: the line
"c" — erased by the first stop, unchanged in the view — is PAINTED AGAIN: rows "a", "b", "c", and
the row of "d" blank with the cursor at its column 0 -/
example :
    let t' := quitReleased [97,10,98,10,99] [97,10,98,10,99,10,100]
    rows t' 5 =
      [[97,32,32,32,32,32,32,32,32,32], [98,32,32,32,32,32,32,32,32,32],
       [99,32,32,32,32,32,32,32,32,32], List.replicate 10 32, List.replicate 10 32] ∧
    t'.main.cr = 3 ∧ t'.main.cc = 0 ∧ t'.main.pw = false := by decide

set_option maxRecDepth 100000 in
/-- what the second stop wrote in that run: CUU 2, then EVERY line ("a", "b", "c", "d"), CUB, and
EL2, CR -/
example :
    let rt := renderViews r0 t0 [[97,10,98,10,99]]
    (stop (write (stop rt.1).1 [97,10,98,10,99,10,100])).2 =
    [.cuu 2, .cr, .text [97], .el0, .cr, .lf, .text [98], .el0, .cr, .lf, .text [99], .el0, .cr, .lf,
     .text [100], .el0, .cub 10, .el2, .cr] := by decide

/-- `stop` as it was BEFORE the repair: flush, EL2, CR, the caches left as the flush left them -/
def stopOld (r : RState) : RState × List TermOp :=
  let (r', ops) := flush r
  (r', ops ++ [.el2, .cr])

/-- `quitReleased` with the old `stop` -/
def quitReleasedOld (a b : Bytes) : Term :=
  let rt := renderViews r0 t0 [a]
  let r1 := (stopOld rt.1).1
  let t1 := applyOps rt.2 (stopOld rt.1).2
  applyOps t1 (stopOld (write r1 b)).2

/-- the old and the new `stop` write the same operations; only the state afterwards differs -/
example (r : RState) : (stopOld r).2 = (stop r).2 ∧ (stop r).1 = (stopOld r).1.repaint :=
  ⟨rfl, rfl⟩

set_option maxRecDepth 100000 in
/-- THE DEFECT THAT WAS REPAIRED.  With the old `stop`, view "a\nb\nc" rendered, stop (release),
view "a\nb\nc\nd" written, stop again: the second flush SKIPS line "c" (unchanged in the cache)
although the first stop erased it — the screen shows "a", "b", "" : row 2 is blank, the line "c"
of the final view is missing — and the second stop wrote no "c" at all -/
example :
    let t' := quitReleasedOld [97,10,98,10,99] [97,10,98,10,99,10,100]
    rows t' 5 =
      [[97,32,32,32,32,32,32,32,32,32], [98,32,32,32,32,32,32,32,32,32],
       List.replicate 10 32, List.replicate 10 32, List.replicate 10 32] ∧
    t'.main.cr = 3 ∧ t'.main.cc = 0 ∧
    (let rt := renderViews r0 t0 [[97,10,98,10,99]]
     (stopOld (write (stopOld rt.1).1 [97,10,98,10,99,10,100])).2 =
       [.cuu 2, .lf, .lf, .lf, .text [100], .el0, .cub 10, .el2, .cr]) := by decide

/-! #### killed, then quit -/

/-- the terminal after: the view `a` rendered (write + flush), `kill` (Program.Kill lost the race
to a quit), then Run's final `write b` and `stop` -/
def quitKilled (a b : Bytes) : Term :=
  let rt := renderViews r0 t0 [a]
  let r1 := (kill rt.1).1
  let t1 := applyOps rt.2 (kill rt.1).2
  applyOps t1 (stop (write r1 b)).2

set_option maxRecDepth 100000 in
/-- after the kill (view "aaa\nbbb\nccc" rendered, then killed): rows "aaa", "bbb", the cursor row
(where "ccc" was) blank, cursor at its column 0; the renderer still counts 3 lines, caches invalid -/
example :
    let rt := renderViews r0 t0 [[97,97,97,10,98,98,98,10,99,99,99]]
    let r1 := (kill rt.1).1
    let t1 := applyOps rt.2 (kill rt.1).2
    rows t1 5 =
      [[97,97,97,32,32,32,32,32,32,32], [98,98,98,32,32,32,32,32,32,32],
       List.replicate 10 32, List.replicate 10 32, List.replicate 10 32] ∧
    t1.main.cr = 2 ∧ t1.main.cc = 0 ∧ t1.main.pw = false ∧
    r1.linesRendered = 3 ∧ r1.lastLines = none ∧ r1.lastRender = [] := by decide

set_option maxRecDepth 100000 in
/-- view "aaa\nbbb\nccc" rendered, `kill`, then Run's final `write "aaa\nbbb\nccc\n"; stop`: the
line "ccc" — erased by the kill, unchanged in the view — is PAINTED AGAIN: rows "aaa", "bbb",
"ccc", and the (blank) row after them with the cursor at its column 0; the stop wrote every line.
(With the OLD model `kill r = (r, [.el2, .cr])` — caches left valid — row 2 would stay blank: see
the next example.) -/
example :
    let t' := quitKilled [97,97,97,10,98,98,98,10,99,99,99] [97,97,97,10,98,98,98,10,99,99,99,10]
    rows t' 5 =
      [[97,97,97,32,32,32,32,32,32,32], [98,98,98,32,32,32,32,32,32,32],
       [99,99,99,32,32,32,32,32,32,32], List.replicate 10 32, List.replicate 10 32] ∧
    t'.main.cr = 3 ∧ t'.main.cc = 0 ∧ t'.main.pw = false ∧ t'.main.top = 0 ∧
    (let rt := renderViews r0 t0 [[97,97,97,10,98,98,98,10,99,99,99]]
     (stop (write (kill rt.1).1 [97,97,97,10,98,98,98,10,99,99,99,10])).2 =
       [.cuu 2, .cr, .text [97,97,97], .el0, .cr, .lf, .text [98,98,98], .el0, .cr, .lf,
        .text [99,99,99], .el0, .cr, .lf, .text [], .el0, .cub 10, .el2, .cr]) := by decide

/-- `kill` as it was BEFORE the repair: EL2, CR, the caches left as they were -/
def killOld (r : RState) : RState × List TermOp := (r, [.el2, .cr])

/-- `quitKilled` with the old `kill` -/
def quitKilledOld (a b : Bytes) : Term :=
  let rt := renderViews r0 t0 [a]
  let r1 := (killOld rt.1).1
  let t1 := applyOps rt.2 (killOld rt.1).2
  applyOps t1 (stop (write r1 b)).2

/-- the old and the new `kill` write the same operations; only the state afterwards differs -/
example (r : RState) : (killOld r).2 = (kill r).2 ∧ (kill r).1 = (killOld r).1.repaint :=
  ⟨rfl, rfl⟩

set_option maxRecDepth 100000 in
/-- THE DEFECT THAT WAS REPAIRED.  With the old `kill`, view "aaa\nbbb\nccc" rendered, kill, then
Run's final `write "aaa\nbbb\nccc\n"; stop`: the flush SKIPS line "ccc" (unchanged in the cache)
although the kill erased it — the screen shows "aaa", "bbb", "" : row 2 is blank, the line "ccc" of
the final view is missing — and the stop wrote no "ccc" at all -/
example :
    let t' := quitKilledOld [97,97,97,10,98,98,98,10,99,99,99] [97,97,97,10,98,98,98,10,99,99,99,10]
    rows t' 5 =
      [[97,97,97,32,32,32,32,32,32,32], [98,98,98,32,32,32,32,32,32,32],
       List.replicate 10 32, List.replicate 10 32, List.replicate 10 32] ∧
    t'.main.cr = 3 ∧ t'.main.cc = 0 ∧
    (let rt := renderViews r0 t0 [[97,97,97,10,98,98,98,10,99,99,99]]
     (stop (write (killOld rt.1).1 [97,97,97,10,98,98,98,10,99,99,99,10])).2 =
       [.cuu 2, .lf, .lf, .lf, .text [], .el0, .cub 10, .el2, .cr]) := by decide

end Tea.Props.C07
