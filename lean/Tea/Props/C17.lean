import Tea.Proofs.Modes
import Tea.Proofs.Tty
import Tea.Proofs.LifecycleExec
import Tea.Proofs.Ticker
/-
C17 — Exec hands the terminal over and takes it back (mode part; termios in section 4).

"While a command started with Exec runs, [...] the terminal is in its restored state (main
screen, cursor visible, paste/mouse/focus modes off). When it finishes, [...] the alt
screen, bracketed paste and focus reporting are re-enabled if they were active before
[...]; any number of consecutive execs."

Models: `releaseTerminal` (ReleaseTerminal: stop the renderer, remember alt / paste / focus in
`Saved`, restoreTerminalState), `restoreTerminalOps` (RestoreTerminal: initTerminal hides the
cursor; re-enter the alt screen if it was active, otherwise request a repaint; re-enable
bracketed paste and focus reporting if they were active) in Tea/Render/Program.lean, the
renderer `step` and the terminal `applyOps` / `modesOf`.

All theorems start from ANY renderer / terminal pair whose tracked flags agree (`Tracked r t`,
an invariant of every renderer operation - `Tea.Props.C05.C05_tracked_flags_sound` - that holds
initially), i.e. from every idle point of every run, whatever options and commands came before.

Vocabulary (Tea/Proofs/Modes.lean, restated below):
* `duringExec (r, t)`  the terminal after ReleaseTerminal, as the external command finds it;
* `execRound (r, t)`   renderer and terminal after ReleaseTerminal followed by RestoreTerminal;
* `execRounds n`       `n` consecutive Execs;
* `afterExec m`        `m` with the cursor hidden and the three mouse modes off;
* `savedOf m`          the `Saved` record `{alt := m.alt, bp := m.paste, focus := m.focus}`.

What the code does NOT re-establish after an Exec - and the theorems say so exactly: the mouse
modes stay off (a program that had enabled the mouse has no mouse after an Exec) and the
cursor is hidden even if the program had shown it (ShowCursor before the Exec is forgotten).
Section 5 is about the Exec as steps of the event-loop goroutine in the Lifecycle LTS (the read loop,
the renderer's listen goroutine, signals, the callers it spawns, any number of Execs).
Only property theorems live here.
-/
namespace Tea.Props.C17
open Tea Tea.VT Tea.Render

/-! ### vocabulary, restated -/

theorem duringExec_def (r : RState) (t : Term) :
    duringExec (r, t) = applyOps t (releaseTerminal r).1.2 := rfl

theorem execRound_def (r : RState) (t : Term) :
    execRound (r, t) =
      ((runOps (releaseTerminal r).1.1 (restoreTerminalOps (releaseTerminal r).2)).1,
       applyOps (applyOps t (releaseTerminal r).1.2)
         (runOps (releaseTerminal r).1.1 (restoreTerminalOps (releaseTerminal r).2)).2) := rfl

theorem execRounds_def (n : Nat) (p : RState × Term) :
    execRounds 0 p = p ∧ execRounds (n + 1) p = execRound (execRounds n p) :=
  ⟨rfl, execRounds_succ' n p⟩

theorem afterExec_def (m : ModeReg) : afterExec m =
    { alt := m.alt, paste := m.paste, focus := m.focus, cursorVis := false,
      m1002 := false, m1003 := false, m1006 := false } := rfl

/-! ### 1. while the external command runs -/

/-- after ReleaseTerminal - from any idle point, whatever modes were set - the terminal is in its
restored state: main screen, cursor visible, mouse / SGR / paste / focus reporting off -/
theorem C17_during (r : RState) (t : Term) (hT : Tracked r t) :
    modesOf (applyOps t (releaseTerminal r).1.2) = {} := by
  rw [modesOf_applyOps]
  exact (release_sim r _ hT).2

/-- what ReleaseTerminal remembers is what the terminal actually had: alt screen, bracketed paste,
focus reporting -/
theorem C17_saved (r : RState) (t : Term) (hT : Tracked r t) :
    (releaseTerminal r).2 = { alt := t.onAlt, bp := t.m2004, focus := t.m1004 } :=
  saved_of_tracked r t hT

/-! ### 2. when it finishes -/

/-- RestoreTerminal after ReleaseTerminal: the alt screen, bracketed paste and focus reporting are
exactly as saved - i.e. as they were before the Exec -, the cursor is hidden and the three
mouse modes are off (NOT re-established, whatever they were before); the renderer's cache is
invalid, so the next view is repainted in full; and the tracked flags agree again -/
theorem C17_after (r : RState) (t : Term) (hT : Tracked r t) :
    let saved := (releaseTerminal r).2
    let r' := (releaseTerminal r).1.1
    let t' := applyOps t (releaseTerminal r).1.2
    let r'' := (runOps r' (restoreTerminalOps saved)).1
    let t'' := applyOps t' (runOps r' (restoreTerminalOps saved)).2
    modesOf t'' = { alt := saved.alt, paste := saved.bp, focus := saved.focus, cursorVis := false,
                    m1002 := false, m1003 := false, m1006 := false } ∧
    modesOf t'' = { alt := t.onAlt, paste := t.m2004, focus := t.m1004, cursorVis := false,
                    m1002 := false, m1003 := false, m1006 := false } ∧
    r''.lastRender = [] ∧ r''.lastLines = none ∧
    Tracked r'' t'' := by
  intro saved r' t' r'' t''
  obtain ⟨_, h2, h3, h4, h5⟩ := execRound_sim (r, t) hT
  have hs : saved = savedOf (modesOf t) := saved_of_tracked r t hT
  have h3' : modesOf t'' = afterExec (modesOf t) := h3
  refine ⟨?_, h3', h4, h5, h2⟩
  rw [h3', hs]
  rfl

/-- so a second Exec right after the first saves the same record (the saved flags are a fixpoint
of release-then-restore) -/
theorem C17_saved_fixpoint (r : RState) (t : Term) (hT : Tracked r t) :
    (releaseTerminal (execRound (r, t)).1).2 = (releaseTerminal r).2 := by
  obtain ⟨_, h2, h3, _⟩ := execRound_sim (r, t) hT
  rw [saved_of_tracked _ _ h2, h3, saved_of_tracked r t hT]
  rfl

/-! ### 3. any number of consecutive Execs -/

/-- after `n ≥ 1` consecutive Execs the modes are what they are after one: alt screen, paste and
focus as before the first, cursor hidden, mouse off; the cache is invalid; the flags agree -/
theorem C17_repeat (n : Nat) (hn : 0 < n) (r : RState) (t : Term) (hT : Tracked r t) :
    modesOf (execRounds n (r, t)).2 = afterExec (modesOf t) ∧
    (execRounds n (r, t)).1.lastRender = [] ∧ (execRounds n (r, t)).1.lastLines = none ∧
    Tracked (execRounds n (r, t)).1 (execRounds n (r, t)).2 := by
  obtain ⟨h1, h2⟩ := execRounds_sim n (r, t) hT
  obtain ⟨h3, h4, h5⟩ := h2 hn
  exact ⟨h3, h4, h5, h1⟩

/-- during every one of them (the `k+1`-st, any `k`) the terminal is in its restored state and
the record saved is the one saved by the first -/
theorem C17_repeat_during (k : Nat) (r : RState) (t : Term) (hT : Tracked r t) :
    modesOf (duringExec (execRounds k (r, t))) = {} ∧
    (releaseTerminal (execRounds k (r, t)).1).2 = (releaseTerminal r).2 := by
  obtain ⟨h1, h2⟩ := execRounds_sim k (r, t) hT
  refine ⟨(execRound_sim _ h1).1, ?_⟩
  rw [saved_of_tracked _ _ h1, saved_of_tracked r t hT]
  cases k with
  | zero => rfl
  | succ j => rw [(h2 (Nat.succ_pos j)).1]; rfl

/-- and a program that exits after any number of Execs still leaves the terminal restored -/
theorem C17_then_exit_restored (n : Nat) (k : ExitKind) (r : RState) (t : Term)
    (hT : Tracked r t) :
    let p := execRounds n (r, t)
    modesOf (applyOps p.2 (runOps p.1 (exitOps p.1 k)).2) = {} := by
  intro p
  have hp : Tracked p.1 p.2 := (execRounds_sim n (r, t) hT).1
  rw [(run_tracked p.1 p.2 _ hp).2, exit_spec p.1 _ k hp]

/-! ### non-vacuity: concrete runs -/

/-- an 80x24 terminal in its initial state -/
def term0 : Term := { w := 80, h := 24 }

/-- the state of a program started with `WithAltScreen`, `WithReportFocus`, `WithMouseAllMotion`
that has shown the cursor -/
def busy : RState × Term :=
  ((runOps {} (startupOps { alt := true, focus := true, all := true } ++ [.showCursor])).1,
   applyOps term0 (runOps {} (startupOps { alt := true, focus := true, all := true } ++ [.showCursor])).2)

example : modesOf busy.2 =
    { alt := true, cursorVis := true, m1003 := true, m1006 := true, paste := true, focus := true } := by
  decide

/-- during the Exec everything is off; afterwards alt, paste and focus are back, the mouse and the
shown cursor are not; three Execs give the same as one -/
example :
    modesOf (duringExec busy) = {} ∧
    (releaseTerminal busy.1).2 = { alt := true, bp := true, focus := true } ∧
    modesOf (execRound busy).2 = { alt := true, cursorVis := false, paste := true, focus := true } ∧
    modesOf (execRounds 3 busy).2 = { alt := true, cursorVis := false, paste := true, focus := true } := by
  decide

/-- the mode operations of one release / restore round from that state -/
example :
    modeOpsOf (releaseTerminal busy.1).1.2 =
      [(2004, false), (25, true), (1002, false), (1003, false), (1006, false), (1004, false),
       (1049, false), (25, true)] ∧
    modeOpsOf (runOps (releaseTerminal busy.1).1.1 (restoreTerminalOps (releaseTerminal busy.1).2)).2 =
      [(25, false), (1049, true), (25, false), (2004, true), (1004, true)] := by
  decide

/-- an inline program without paste: nothing is re-enabled but the cursor is hidden again -/
example :
    modesOf (execRound ((runOps {} (startupOps { noPaste := true })).1,
      applyOps term0 (runOps {} (startupOps { noPaste := true })).2)).2 = { cursorVis := false } := by
  decide

/-! ### 4. the line discipline (termios) while the external command runs

Model: Tea/Render/Tty.lean (see Tea/Props/C05.lean, section 4): settings of an abstract type
`σ`, `s0` before Run, `raw` arbitrary. `(runTty raw isTty s0 evs k).during` lists the settings
each external command finds (after ReleaseTerminal's `restoreInput`, before RestoreTerminal's
`initInput`), `.between` those after start-up and after each event. -/

section Termios
variable {σ : Type}

/-- vocabulary, restated: what one Exec shows and leaves -/
theorem ttyDuring_def (raw : σ → σ) (t : TtyState σ) :
    ttyDuring t .exec = [(restoreInput t).cur] ∧ ttyDuring t .releaseOnly = [] ∧
    ttyDuring t .restoreOnly = [] ∧
    ttyStep raw t .exec = initInput raw (restoreInput t) :=
  ⟨rfl, rfl, rfl, rfl⟩

theorem during_between_def (raw : σ → σ) (t : TtyState σ) (e : TtyEvent) (es : List TtyEvent) :
    ttyDuringAll raw t [] = [] ∧
    ttyDuringAll raw t (e :: es) = ttyDuring t e ++ ttyDuringAll raw (ttyStep raw t e) es ∧
    ttyBetweenAll raw t [] = [] ∧
    ttyBetweenAll raw t (e :: es) = (ttyStep raw t e).cur :: ttyBetweenAll raw (ttyStep raw t e) es :=
  ⟨rfl, rfl, rfl, rfl⟩

/-- during EVERY Exec of a history of Execs (any number, terminal or not) the settings are `s0`:
the command sees the line discipline as it was before Run. On a terminal, between the Execs -
after start-up and after each RestoreTerminal, while the program runs - they are `raw s0`. -/
theorem C17_termios_during_exec (raw : σ → σ) (isTty : Bool) (s0 : σ) (evs : List TtyEvent)
    (k : ExitKind) (h : ∀ e ∈ evs, e = .exec) :
    (runTty raw isTty s0 evs k).during = List.replicate evs.length s0 ∧
    (isTty = true →
      (runTty raw isTty s0 evs k).between = List.replicate (evs.length + 1) (raw s0)) := by
  cases isTty with
  | true =>
    obtain ⟨_, h2, h3⟩ := execs_taken raw s0 evs h
    refine ⟨h2, fun _ => ?_⟩
    show raw s0 :: ttyBetweenAll raw (taken raw s0) evs = _
    rw [h3]; rfl
  | false =>
    refine ⟨?_, by simp⟩
    have h2 := (events_notTty raw (ttyFresh false s0) evs rfl).2.1
    have hl : (ttyDuringAll raw (ttyFresh false s0) evs).length = evs.length := by
      clear h2
      generalize ttyFresh false s0 = t
      induction evs generalizing t with
      | nil => rfl
      | cons e es ih =>
        have he : e = .exec := h e (List.mem_cons_self ..)
        subst he
        simp [ttyDuringAll, ttyDuring, ih (fun x hx => h x (List.mem_cons_of_mem _ hx))]
    show ttyDuringAll raw (ttyFresh false s0) evs = _
    rw [← hl]
    exact List.eq_replicate_iff.mpr ⟨rfl, h2⟩

/-- pointwise: the `i`-th command (any `i` below the number of Execs) finds `s0`, and the `i`-th
idle stretch of a program on a terminal is in `raw s0` -/
theorem C17_termios_during_exec_nth (raw : σ → σ) (s0 : σ) (n : Nat) (k : ExitKind) (i : Nat) :
    (i < n → (runTty raw true s0 (List.replicate n .exec) k).during[i]? = some s0) ∧
    (i ≤ n → (runTty raw true s0 (List.replicate n .exec) k).between[i]? = some (raw s0)) := by
  obtain ⟨h1, h2⟩ := C17_termios_during_exec raw true s0 (List.replicate n .exec) k
    (fun e he => List.eq_of_mem_replicate he)
  rw [h1, h2 rfl]
  simp only [List.length_replicate]
  constructor
  · intro hi; simp [hi]
  · intro hi; simp [Nat.lt_succ_of_le hi]

/-- the same holds for the command of an `exec` anywhere in a history in which releases and
restores alternate up to it: it finds `s0` -/
theorem C17_termios_during_exec_alternating (raw : σ → σ) (s0 : σ) (evs rest : List TtyEvent)
    (k : ExitKind) (h : alternating false evs = true) :
    (runTty raw true s0 (evs ++ .exec :: rest) k).during =
      (runTty raw true s0 evs k).during ++ s0 :: ttyDuringAll raw (taken raw s0) rest := by
  obtain ⟨rel, h1⟩ := alternating_phase raw s0 evs false h
  have happ : ∀ (t : TtyState σ) (a b : List TtyEvent),
      ttyDuringAll raw t (a ++ b) = ttyDuringAll raw t a ++ ttyDuringAll raw (ttyEvents raw t a) b := by
    intro t a b
    induction a generalizing t with
    | nil => rfl
    | cons e es ih => simp [ttyDuringAll, ttyEvents, ih]
  show ttyDuringAll raw (phase raw s0 false) (evs ++ .exec :: rest) =
    ttyDuringAll raw (phase raw s0 false) evs ++ s0 :: ttyDuringAll raw (taken raw s0) rest
  rw [happ, h1]
  cases rel <;> rfl

end Termios

/-! ### non-vacuity (termios): σ = Nat, raw = (· + 100), settings 7 before Run -/

example :
    (runTty (· + 100) true 7 [.exec, .exec] .quit).during = [7, 7] ∧
    (runTty (· + 100) true 7 [.exec, .exec] .quit).between = [107, 107, 107] ∧
    (runTty (· + 100) false 7 [.exec, .exec] .quit).during = [7, 7] ∧
    (runTty (· + 100) false 7 [.exec, .exec] .quit).between = [7, 7, 7] ∧
    (runTty (· + 100) true 7 [.releaseOnly, .exec, .exec] .ctx).during = [7, 7] := by
  decide

/-- outside the scope (RestoreTerminal without a release, see
`Tea.Props.C05.C05_termios_double_restore_misuse`): the next command finds the raw settings -/
example : (runTty (· + 100) true 7 [.exec, .restoreOnly, .exec] .quit).during = [7, 107] := by
  decide

end Tea.Props.C17

/-! ### 5. Exec in the lifecycle LTS

The sections above are about the BYTES an Exec writes and the line discipline.  This one is about
the Exec as a sequence of steps of the event-loop goroutine among all the other goroutines, in the
Lifecycle LTS (`Tea/Runtime/Lifecycle.lean`): an Exec message (a Send caller of kind `exec`) is
received by the loop, which then runs ReleaseTerminal (`exRelCancel`, `exRelWaitRead` /
`exRelWaitTimeout`, `exRelRenderer`, `exRelRestore`), waits for the command (`execCmd`, user
code), runs RestoreTerminal (`exResReader`, `exResRenderer`, `exResSpawn`) and hands the message to
Update (`callback`).  Helper lemmas: `Tea/Proofs/LifecycleExec.lean`. -/
namespace Tea.Props.C17
open Tea.Runtime.Life

/-- the fault-free Exec of the message of sender `e`; the two callers it appends -/
theorem lts_execSchedule_def (e : Nat) : execSchedule e =
    [.elRecvSender e, .exRelCancel, .exRelWaitTimeout, .exRelRenderer, .exRelRestore, .execCmdReturns,
     .exResReader, .exResRenderer, .exResSpawn] := rfl

theorem lts_execCallers_def :
    execCallers = [{ kind := .user, pc := .blocked }, { kind := .user, pc := .blocked }] := rfl

/-- **THE ROUND TRIP IN THE LTS.**  From every reachable state with the loop at its `select`, the
renderer listening and the Exec message of sender `e` waiting in Send, the fault-free Exec
schedule is enabled step by step.  WHILE THE COMMAND RUNS (`sm`, after the first five steps): the
renderer's listen goroutine is stopped and writes nothing (`tick` is not enabled), the terminal has
been restored (no mode sequence outstanding, one more `restoreTerminalState`), signals are ignored
(no signal step exists), and the input is left to the command: a cancelable reader has been asked to
stop.  AT THE END (`sf`, Update has the execMsg): there is a read loop iff the program has an
input, the renderer is listening again, the ignore-signals flag has the value the program was
configured with (WithoutSignals or not; `C18_ignored`) and no release is stuck any more - so the flag
is what it was before the Exec, unless a release had been stuck before (a failed release, a
panicked command: the flag was set; this Exec repairs it) -, the mode sequences have been written
again, and exactly two callers have
been appended (the goroutines that Send the repaint / size message and the callback's message),
the sender of the Exec message having returned. -/
theorem C17_lts_exec_roundtrip (c : Config) (s : St) (hr : Reachable c s) (hsel : s.el = .select)
    (hli : s.listen = .idle) (e : Nat) (cl : Caller) (he : s.senders[e]? = some cl)
    (hk : cl.kind = .exec) (hb : cl.pc = .blocked) :
    ∃ sm sf, runLabels s ((execSchedule e).take 5) = some sm ∧
      runLabels sm ((execSchedule e).drop 5) = some sf ∧ runLabels s (execSchedule e) = some sf ∧
      -- while the command runs
      (sm.el = .execCmd ∧ sm.listen = .stopped ∧ step sm .tick = none ∧ sm.modesDirty = false ∧
       sm.restores = s.restores + 1 ∧ sm.ignoreSignals = true ∧ (∀ b, step sm (.signal b) = none) ∧
       (s.reader ≠ .absent → s.cancelable = true → sm.readerCancelRequested = true)) ∧
      -- when Update receives the execMsg
      (sf.el = .callback ∧ (sf.reader = .reading ↔ s.withInput = true) ∧ sf.listen = .idle ∧
       sf.ignoreSignals = c.ignoreSignals ∧ sf.releaseStuck = false ∧
       (s.releaseStuck = false → sf.ignoreSignals = s.ignoreSignals) ∧
       sf.modesDirty = true ∧
       sf.senders = s.senders.set e { cl with pc := .returned } ++ execCallers ∧
       sf.senders.length = s.senders.length + 2) := by
  obtain ⟨sm, sf, h1, h2, h3, hd, ha⟩ := exec_roundtrip hr hsel hli he hk hb
  refine ⟨sm, sf, h1, h2, h3,
    ⟨hd.el, hd.listen, hd.noTick, hd.modes, hd.restores, hd.signals.1, hd.signals.2, hd.cancel⟩,
    ⟨ha.el, ha.reader, ha.listen, ha.signals.1.trans (inv_withoutSignals hr), ha.signals.2.1, ?_,
      ha.modes, ha.senders, ?_⟩⟩
  · intro hst
    rw [ha.signals.1, inv_withoutSignals hr, inv_sig hr, hsel, hst]
    simp [ElPc.released]
  · rw [ha.senders]
    simp [execCallers]

/-- **THE CALLBACK'S MESSAGE IS DELIVERED AT MOST ONCE.**  (1) The loop receives the message of a
caller only while that caller is blocked in Send, and the caller has returned afterwards.  (2) A
caller that has returned is never touched again, along any schedule, and the loop can never receive
from it again: each of the callers an Exec appends - the callback's message among them - is
delivered at most once.  (3) `exResSpawn` appends exactly those two callers, blocked.  (4) And they
never hang: once the context is cancelled (the first thing every shutdown does), hence once Run has
returned, a caller that is still blocked returns by a step of its own (C13). -/
theorem C17_lts_callback_once :
    (∀ (s s' : St) (j : Nat), step s (.elRecvSender j) = some s' →
      ∃ cl, s.senders[j]? = some cl ∧ cl.pc = .blocked ∧
        s'.senders[j]? = some { cl with pc := .returned }) ∧
    (∀ (s : St) (j : Nat) (cl : Caller), s.senders[j]? = some cl → cl.pc = .returned →
      ∀ ls s', runLabels s ls = some s' →
        s'.senders[j]? = some cl ∧ step s' (.elRecvSender j) = none) ∧
    (∀ (s s' : St), step s .exResSpawn = some s' → s'.senders = s.senders ++ execCallers) ∧
    (∀ (c : Config) (s : St), Reachable c s → s.ctxDone = true ∨ s.runPc = .returned →
      ∀ (j : Nat) (cl : Caller), s.senders[j]? = some cl → cl.pc = .blocked →
        ∃ s', step s (.sendAbort j) = some s' ∧ s'.senders[j]? = some { cl with pc := .returned }) := by
  refine ⟨fun s s' j hs => elRecvSender_once hs, ?_, ?_, ?_⟩
  · intro s j cl hj hp ls s' hrun
    have h := sender_returned_runLabels ls hrun hj hp
    exact ⟨h, elRecvSender_returned_none h hp⟩
  · intro s s' hs
    simp only [step] at hs
    split at hs
    · cases hs; rfl
    · cases hs
  · intro c s hr h j cl hj hb
    have hctx : s.ctxDone = true := by
      rcases h with h | h
      · exact h
      · exact ((inv_ctx hr).returned h).1
    exact ⟨_, sendAbort_enabled hj hb hctx, getElem?_set_self_of hj⟩

/-- one Exec followed by its Update and View: the loop is back at its `select` -/
theorem lts_execRound_def (e : Nat) :
    execRound e = execSchedule e ++ [.callbackReturns, .elCmdHandOver, .viewReturns] := rfl

/-- **ANY NUMBER OF CONSECUTIVE EXECS IN THE LTS.**  From every reachable state with the loop at its
`select`, the renderer listening and the command dispatcher alive, for EVERY list `es` of distinct
Exec messages waiting in Send: the Execs can be run one after the other (each with its Update and
View; by induction on the number), and after the last one the loop is again at its `select` with the
renderer listening and the dispatcher alive - the hypotheses of `C17_lts_exec_roundtrip` hold again -,
the ignore-signals flag has the value the program was configured with and no release is stuck, the
mode sequences are written, there is a read loop iff the program has an
input, every Exec has restored the terminal once and has appended its two callers, and every
Exec message has been received exactly once (its sender has returned). -/
theorem C17_lts_repeat (c : Config) (s : St) (hr : Reachable c s) (hsel : s.el = .select)
    (hli : s.listen = .idle) (hd : s.dispAlive = true) (es : List Nat) (hne : es ≠ []) (hnd : es.Nodup)
    (hall : ∀ e ∈ es, ∃ cl, s.senders[e]? = some cl ∧ cl.kind = .exec ∧ cl.pc = .blocked) :
    ∃ sf, runLabels s (es.flatMap execRound) = some sf ∧
      sf.el = .select ∧ sf.listen = .idle ∧ sf.dispAlive = true ∧
      sf.ignoreSignals = c.ignoreSignals ∧ sf.releaseStuck = false ∧ sf.modesDirty = true ∧
      (sf.reader = .reading ↔ sf.withInput = true) ∧
      sf.senders.length = s.senders.length + 2 * es.length ∧ sf.restores = s.restores + es.length ∧
      (∀ e ∈ es, ∃ cl, sf.senders[e]? = some cl ∧ cl.kind = .exec ∧ cl.pc = .returned) := by
  obtain ⟨sf, h1, h2, h3, h4, h5, h6⟩ :=
    exec_rounds es hr ⟨hsel, hli, hd⟩ hnd hall (fun h => absurd h hne)
  exact ⟨sf, h1, h2.el, h2.listen, h2.disp,
    h3.signals.1.trans (inv_withoutSignals (reachable_runLabels _ hr h1)), h3.signals.2, h3.modes,
    h3.reader, h4, h5, h6⟩

/-! non-vacuity -/

/-- a program with a cancelable input, a signal handler, a resize listener, three Exec messages and
a Quit() caller -/
def cfgX : Config :=
  { cancelable := true, withSignalHandler := true, ignoreSignals := false, withResize := true,
    withInitCmd := false, withInput := true, senders := [.exec, .exec, .exec, .quit], waiters := 0 }

/-- the hypotheses of `C17_lts_exec_roundtrip` / `C17_lts_repeat` hold when the loop begins and the
three Exec messages have been sent -/
example : (runLabels (init cfgX) [.sendCall 0, .sendCall 1, .sendCall 2]).map
    (fun s => (s.el, s.listen, s.dispAlive, s.senders.map (·.pc))) =
    some (.select, .idle, true, [.blocked, .blocked, .blocked, .notCalled]) := by decide

/-- one Exec: while the command runs, and when Update has the message -/
example :
    (runLabels (init cfgX) ([.sendCall 0] ++ (execSchedule 0).take 5)).map
      (fun s => (s.el, s.listen, (step s .tick).isSome, s.modesDirty, s.readerCancelRequested)) =
      some (.execCmd, .stopped, false, false, true) ∧
    (runLabels (init cfgX) ([.sendCall 0] ++ execSchedule 0)).map
      (fun s => (s.el, s.reader, s.listen, s.modesDirty, s.senders.map (·.pc))) =
      some (.callback, .reading, .idle, true, [.returned, .notCalled, .notCalled, .notCalled, .blocked, .blocked]) := by
  decide

/-- three consecutive Execs (in the order 2, 0, 1), then the Quit(): six callers appended, three
restores by the Execs and one by Run's shutdown, Run returns nil -/
example :
    (runLabels (init cfgX) ([.sendCall 0, .sendCall 1, .sendCall 2] ++ [2, 0, 1].flatMap execRound)).map
      (fun s => (s.el, s.listen, s.ignoreSignals, s.restores, s.senders.length)) =
      some (.select, .idle, false, 3, 10) ∧
    (runLabels (init cfgX) ([.sendCall 0, .sendCall 1, .sendCall 2] ++ [2, 0, 1].flatMap execRound ++
      [.sendCall 3, .elRecvSender 3, .runTail, .shCancel none, .dispExit, .sigExit, .resizeExit,
       .shHandlers none, .shReader none, .readerCanceled, .shWaitRead none, .shRenderer none,
       .shRestore none, .runReturn])).map
      (fun s => (s.runPc, s.runErr, s.restores, s.modesDirty)) = some (.returned, .nil, 4, false) := by
  decide

/-- the callback's message (caller 4) is delivered once: after the loop has received it the step does
not exist any more -/
example : (runLabels (init cfgX) ([.sendCall 0] ++ execRound 0 ++ [.elRecvSender 4])).map
    (fun s => (s.el, s.senders.map (·.pc), (step s (.elRecvSender 4)).isSome)) =
    some (.callback, [.returned, .notCalled, .notCalled, .notCalled, .returned, .blocked], false) := by
  decide

end Tea.Props.C17

/-! ## 6. the renderer ticks again after the terminal is taken back (`Tea/Render/Ticker.lean`)

"... input is read again, and the next view is fully repainted": the repaint is performed by the
restarted renderer's next tick. Before the repair recorded in DESIGN §6 (`c17-ticker`) the listener of
the previous run stopped the ticker AFTER having taken the stop signal, i.e. possibly after the
restart had reset it: the restarted renderer then never ticked again. Found by a sub-agent writing a
demonstration for a seeded change (its test failed 4 times in 9 on the unchanged tree when the exec'd
command returned at once), replayed deterministically with the trace point `listen: stop received`
(scenario `exec`, case restart-keeps-ticking). -/
namespace Tea.Props.C17
open Tea.Render.Ticker

/-- THE DEFECT, as a run of the old handshake: start, halt (listener 0 takes the signal), start
again (ticker reset, listener 1), and only then listener 0 stops the ticker. The renderer is
running (`listening`), its listener waits at its select - and no tick is enabled, now or ever
after, unless somebody calls `start` once more. -/
theorem C17_restart_loses_ticker_old :
    ∃ s, runWith stepOld {} [.start, .halt 0, .start, .after 0] = some s ∧
      s.listening = true ∧ s.listeners = [.gone, .atSelect] ∧ s.tickerOn = false ∧
      ∀ i, stepOld s (.tick i) = none := by
  refine ⟨{ tickerOn := false, listening := true, listeners := [.gone, .atSelect] }, by decide, rfl, rfl, rfl, ?_⟩
  intro i; simp [stepOld, tickStep]

/-- the repaired handshake, EVERY interleaving of start / halt calls with the listeners: a renderer
that is running has a running ticker ... -/
theorem C17_running_renderer_has_ticker (s : St) (h : Reach stepNew s) (hl : s.listening = true) :
    s.tickerOn = true :=
  (inv_reach s h).1 hl

/-- ... exactly one listener waits for it (none when the renderer is halted: no tick can paint
while the terminal is released) ... -/
theorem C17_one_listener (s : St) (h : Reach stepNew s) :
    waiting s = if s.listening then 1 else 0 :=
  (inv_reach s h).2

/-- ... and so a tick is enabled: the restarted renderer paints -/
theorem C17_restarted_renderer_ticks (s : St) (h : Reach stepNew s) (hl : s.listening = true) :
    ∃ i s', stepNew s (.tick i) = some s' ∧ s'.ticks = s.ticks + 1 := by
  have hi := inv_reach s h
  have hw : waiting s = 1 := by rw [hi.2, hl]; rfl
  obtain ⟨i, hi'⟩ := exists_waiting s.listeners hw
  exact ⟨i, { s with ticks := s.ticks + 1 }, by simp [stepNew, tickStep, hi.1 hl, hi'], rfl⟩

/-- while halted nothing ticks (C17: Bubble Tea writes nothing while the command runs) -/
theorem C17_halted_renderer_silent (s : St) (h : Reach stepNew s) (hl : s.listening = false) (i : Nat) :
    stepNew s (.tick i) = none := by
  have hw : waiting s = 0 := by rw [(inv_reach s h).2, hl]; rfl
  simp only [stepNew, tickStep]
  split
  · rename_i hc
    have : LPc.atSelect ∈ s.listeners.filter (· == .atSelect) := by
      simp only [List.mem_filter, beq_self_eq_true, and_true]
      exact List.mem_of_getElem? hc.2
    unfold waiting at hw
    rw [List.length_eq_zero_iff] at hw
    rw [hw] at this
    simp at this
  · rfl

/-- the run of the defect, under the repaired handshake: the restarted renderer ticks -/
example : (runWith stepNew {} [.start, .halt 0, .start, .after 0, .tick 1]).map (fun s => (s.tickerOn, s.ticks)) =
    some (true, 1) := by decide

end Tea.Props.C17
