import Tea.Proofs.Modes
/-
C17 — Exec hands the terminal over and takes it back (mode part).

"While a command started with Exec runs, [...] the terminal is in its restored state (main
screen, cursor visible, paste/mouse/focus modes off). When it finishes, [...] the alt
screen, bracketed paste and focus reporting are re-enabled if they were active before
[...]; any number of consecutive execs."

Models: `releaseTerminal` (ReleaseTerminal: stop the renderer, remember alt / paste / focus in
`Saved`, restoreTerminalState), `restoreTerminalOps` (RestoreTerminal: initTerminal hides the
cursor; re-enter the alt screen if it was active, otherwise request a repaint; re-enable
bracketed paste and focus reporting if they were active) in Tea/Render/Program.lean, the
renderer `step` and the terminal `applyOps` / `modesOf`.

All theorems start from ANY renderer / terminal pair whose tracked flags agree (`Tracked r t`,
an invariant of every renderer operation - `Tea.Props.C05.C05_tracked_flags_sound` - that holds
initially), i.e. from every idle point of every run, whatever options and commands came before.

Vocabulary (Tea/Proofs/Modes.lean, restated below):
* `duringExec (r, t)`  the terminal after ReleaseTerminal, as the external command finds it;
* `execRound (r, t)`   renderer and terminal after ReleaseTerminal followed by RestoreTerminal;
* `execRounds n`       `n` consecutive Execs;
* `afterExec m`        `m` with the cursor hidden and the three mouse modes off;
* `savedOf m`          the `Saved` record `{alt := m.alt, bp := m.paste, focus := m.focus}`.

What the code does NOT re-establish after an Exec - and the theorems say so exactly: the mouse
modes stay off (a program that had enabled the mouse has no mouse after an Exec) and the
cursor is hidden even if the program had shown it (ShowCursor before the Exec is forgotten).
Only property theorems live here.
-/
namespace Tea.Props.C17
open Tea Tea.VT Tea.Render

/-! ### vocabulary, restated -/

theorem duringExec_def (r : RState) (t : Term) :
    duringExec (r, t) = applyOps t (releaseTerminal r).1.2 := rfl

theorem execRound_def (r : RState) (t : Term) :
    execRound (r, t) =
      ((runOps (releaseTerminal r).1.1 (restoreTerminalOps (releaseTerminal r).2)).1,
       applyOps (applyOps t (releaseTerminal r).1.2)
         (runOps (releaseTerminal r).1.1 (restoreTerminalOps (releaseTerminal r).2)).2) := rfl

theorem execRounds_def (n : Nat) (p : RState × Term) :
    execRounds 0 p = p ∧ execRounds (n + 1) p = execRound (execRounds n p) :=
  ⟨rfl, execRounds_succ' n p⟩

theorem afterExec_def (m : ModeReg) : afterExec m =
    { alt := m.alt, paste := m.paste, focus := m.focus, cursorVis := false,
      m1002 := false, m1003 := false, m1006 := false } := rfl

/-! ### 1. while the external command runs -/

/-- after ReleaseTerminal - from any idle point, whatever modes were set - the terminal is in its
restored state: main screen, cursor visible, mouse / SGR / paste / focus reporting off -/
theorem C17_during (r : RState) (t : Term) (hT : Tracked r t) :
    modesOf (applyOps t (releaseTerminal r).1.2) = {} := by
  rw [modesOf_applyOps]
  exact (release_sim r _ hT).2

/-- what ReleaseTerminal remembers is what the terminal actually had: alt screen, bracketed paste,
focus reporting -/
theorem C17_saved (r : RState) (t : Term) (hT : Tracked r t) :
    (releaseTerminal r).2 = { alt := t.onAlt, bp := t.m2004, focus := t.m1004 } :=
  saved_of_tracked r t hT

/-! ### 2. when it finishes -/

/-- RestoreTerminal after ReleaseTerminal: the alt screen, bracketed paste and focus reporting are
exactly as saved - i.e. as they were before the Exec -, the cursor is hidden and the three
mouse modes are off (NOT re-established, whatever they were before); the renderer's cache is
invalid, so the next view is repainted in full; and the tracked flags agree again -/
theorem C17_after (r : RState) (t : Term) (hT : Tracked r t) :
    let saved := (releaseTerminal r).2
    let r' := (releaseTerminal r).1.1
    let t' := applyOps t (releaseTerminal r).1.2
    let r'' := (runOps r' (restoreTerminalOps saved)).1
    let t'' := applyOps t' (runOps r' (restoreTerminalOps saved)).2
    modesOf t'' = { alt := saved.alt, paste := saved.bp, focus := saved.focus, cursorVis := false,
                    m1002 := false, m1003 := false, m1006 := false } ∧
    modesOf t'' = { alt := t.onAlt, paste := t.m2004, focus := t.m1004, cursorVis := false,
                    m1002 := false, m1003 := false, m1006 := false } ∧
    r''.lastRender = [] ∧ r''.lastLines = none ∧
    Tracked r'' t'' := by
  intro saved r' t' r'' t''
  obtain ⟨_, h2, h3, h4, h5⟩ := execRound_sim (r, t) hT
  have hs : saved = savedOf (modesOf t) := saved_of_tracked r t hT
  have h3' : modesOf t'' = afterExec (modesOf t) := h3
  refine ⟨?_, h3', h4, h5, h2⟩
  rw [h3', hs]
  rfl

/-- so a second Exec right after the first saves the same record (the saved flags are a fixpoint
of release-then-restore) -/
theorem C17_saved_fixpoint (r : RState) (t : Term) (hT : Tracked r t) :
    (releaseTerminal (execRound (r, t)).1).2 = (releaseTerminal r).2 := by
  obtain ⟨_, h2, h3, _⟩ := execRound_sim (r, t) hT
  rw [saved_of_tracked _ _ h2, h3, saved_of_tracked r t hT]
  rfl

/-! ### 3. any number of consecutive Execs -/

/-- after `n ≥ 1` consecutive Execs the modes are what they are after one: alt screen, paste and
focus as before the first, cursor hidden, mouse off; the cache is invalid; the flags agree -/
theorem C17_repeat (n : Nat) (hn : 0 < n) (r : RState) (t : Term) (hT : Tracked r t) :
    modesOf (execRounds n (r, t)).2 = afterExec (modesOf t) ∧
    (execRounds n (r, t)).1.lastRender = [] ∧ (execRounds n (r, t)).1.lastLines = none ∧
    Tracked (execRounds n (r, t)).1 (execRounds n (r, t)).2 := by
  obtain ⟨h1, h2⟩ := execRounds_sim n (r, t) hT
  obtain ⟨h3, h4, h5⟩ := h2 hn
  exact ⟨h3, h4, h5, h1⟩

/-- during every one of them (the `k+1`-st, any `k`) the terminal is in its restored state and
the record saved is the one saved by the first -/
theorem C17_repeat_during (k : Nat) (r : RState) (t : Term) (hT : Tracked r t) :
    modesOf (duringExec (execRounds k (r, t))) = {} ∧
    (releaseTerminal (execRounds k (r, t)).1).2 = (releaseTerminal r).2 := by
  obtain ⟨h1, h2⟩ := execRounds_sim k (r, t) hT
  refine ⟨(execRound_sim _ h1).1, ?_⟩
  rw [saved_of_tracked _ _ h1, saved_of_tracked r t hT]
  cases k with
  | zero => rfl
  | succ j => rw [(h2 (Nat.succ_pos j)).1]; rfl

/-- and a program that exits after any number of Execs still leaves the terminal restored -/
theorem C17_then_exit_restored (n : Nat) (k : ExitKind) (r : RState) (t : Term)
    (hT : Tracked r t) :
    let p := execRounds n (r, t)
    modesOf (applyOps p.2 (runOps p.1 (exitOps p.1 k)).2) = {} := by
  intro p
  have hp : Tracked p.1 p.2 := (execRounds_sim n (r, t) hT).1
  rw [(run_tracked p.1 p.2 _ hp).2, exit_spec p.1 _ k hp]

/-! ### non-vacuity: concrete runs -/

/-- an 80x24 terminal in its initial state -/
def term0 : Term := { w := 80, h := 24 }

/-- the state of a program started with `WithAltScreen`, `WithReportFocus`, `WithMouseAllMotion`
that has shown the cursor -/
def busy : RState × Term :=
  ((runOps {} (startupOps { alt := true, focus := true, all := true } ++ [.showCursor])).1,
   applyOps term0 (runOps {} (startupOps { alt := true, focus := true, all := true } ++ [.showCursor])).2)

example : modesOf busy.2 =
    { alt := true, cursorVis := true, m1003 := true, m1006 := true, paste := true, focus := true } := by
  decide

/-- during the Exec everything is off; afterwards alt, paste and focus are back, the mouse and the
shown cursor are not; three Execs give the same as one -/
example :
    modesOf (duringExec busy) = {} ∧
    (releaseTerminal busy.1).2 = { alt := true, bp := true, focus := true } ∧
    modesOf (execRound busy).2 = { alt := true, cursorVis := false, paste := true, focus := true } ∧
    modesOf (execRounds 3 busy).2 = { alt := true, cursorVis := false, paste := true, focus := true } := by
  decide

/-- the mode operations of one release / restore round from that state -/
example :
    modeOpsOf (releaseTerminal busy.1).1.2 =
      [(2004, false), (25, true), (1002, false), (1003, false), (1006, false), (1004, false),
       (1049, false), (25, true)] ∧
    modeOpsOf (runOps (releaseTerminal busy.1).1.1 (restoreTerminalOps (releaseTerminal busy.1).2)).2 =
      [(25, false), (1049, true), (25, false), (2004, true), (1004, true)] := by
  decide

/-- an inline program without paste: nothing is re-enabled but the cursor is hidden again -/
example :
    modesOf (execRound ((runOps {} (startupOps { noPaste := true })).1,
      applyOps term0 (runOps {} (startupOps { noPaste := true })).2)).2 = { cursorVis := false } := by
  decide

end Tea.Props.C17
