import Tea.Proofs.ChunkedStraddle
import Tea.Proofs.ChunkedEventsDoc
/-
C15 — Input longer than the read buffer decodes as if it had arrived in one piece.

"When more input is pending than fits the reader's internal buffer, the result is
the same as if the whole input had been decoded at once: a character, escape
sequence, mouse report or paste that straddles the internal buffer boundary is
neither split, dropped, nor turned into spurious key presses."

The theorems are about the model of readAnsiInputs / detectOneMsg (key.go,
key_sequences.go, mouse.go) in `Tea/Input`: `bufSize = 256`, `processRead` (one
successful Read: `canHaveMoreData := numBytes == len(buf)`, decode loop on
left-over ++ chunk), `readAll` (all reads, then EOF or another error), `readsOf`
(how an io.Reader that fills the buffer whenever it can delivers a byte string:
full 256-byte reads, then one short read).  `oneShot T lens s` is the decode loop
with `canHaveMoreData = false` on the whole input `s`: "decoded at once".

Structure:
 1. the `more` flag only holds back (1a), so a `more = true` run emits a prefix of
    the `more = false` run on the same buffer (1b), and a full read followed by
    EOF is exactly one-shot decoding (1c);
 2. what is held back is given back unchanged (3: `C15_hold_is_sound`);
 3. the general shape of two reads (`C15_two_reads_partial`) and a concrete
    malformed input on which chunked and one-shot decoding DIFFER in the model
    (so the unconditional statement is false, and the remaining theorems are per
    event class);
 4. event classes, each for ALL paddings / positions of the boundary:
    runs of printable characters over ANY number of full reads (`C15_rune_run`,
    `C15_rune_straddle`), and, across one boundary after printable padding: SGR
    mouse reports, X10 mouse reports, key sequences of the table, whole bracketed
    pastes, alt + a (multi-byte) character (`C15_altrune_straddle`), and any event
    whose cut beginning is held back (`C15_event_straddle`);
 6. STREAMS of events over ANY number of full reads: the general theorem
    `C15_stream` (any table; hypotheses `StreamOK` and `CutStable`, statements about
    detectOneMsg on explicit byte strings), its invariant `C15_stream_cut`, and the
    proof that the event classes of the property — the grammar `Ev` of
    `Tea/Input/StreamSpec.lean` under the decidable side conditions `WellFormed` —
    satisfy them (`C15_events_cutStable`), hence `C15_stream_events` (any `TableOK`
    table) and `C15_stream_doc` (the documented table), with a 587-byte example and a
    522-byte example with alt + character across both boundaries;
 7. the counterexample and non-vacuity examples.

The grammar `Ev` covers: runs of printable characters, keys of the table (CSI / SS3
keys, alt variants, control characters and alt + control characters, space and
alt+space), SGR and X10 mouse reports, bracketed pastes, unknown CSI sequences, NUL,
and alt + ONE printable character (`ESC utf8(r)`, decoded by the tail of detectOneMsg
with `alt = true`).  What remains EXCLUDED from the stream theorems, and why:
 * `ESC ESC` (alt+escape): a proper prefix of every alt variant, inherently ambiguous
   at the end of a buffer;
 * `ESC [ 7 $` / `ESC [ 8 $` (urxvt shift+home / shift+end): the decoder's own
   `isIncompleteEvent` takes them for unfinished CSI sequences;
 * a lone `ESC` as an event of its own (the escape key): at the end of a completely
   filled read it is held back, and whatever follows it is read as alt + that;
 * alt + a character that STARTS a known sequence: `ESC [` and `ESC O` over the
   documented table (`C15_doc_altrune_ok`: these two are the only printable ones) —
   the bytes of the next event could complete the key (`ESC O` + `A` is the up arrow);
   for a general table: any `ESC utf8(r)` comparable with a key (`incomparableB`);
 * alt + U+FFFD (the decoder cannot tell it from a decoding error);
 * alt+NUL (`ESC NUL`; not in the table, handled by the tail: not in the grammar);
 * focus reports `ESC [ I` / `ESC [ O` (whole-buffer equality in detectReportFocus:
   they decode differently when something follows in the same buffer);
 * invalid bytes / invalid UTF-8 (see `C15_unanchored_regex` for what malformed input
   can do).
(alt+space and alt + control characters are KEYS of the table: event class `key`.)

All theorems hold for EVERY key table `T` and list `lens` of positive lengths;
hypotheses on the table are stated where needed and hold for bubbletea's table
(`ControlKeyed`: every key sequence starts with ESC, a control character, space
or DEL; `isProperPrefixOfKey T [ESC]`: some key sequence longer than one byte
starts with ESC).  Only property theorems live here; helper lemmas are in
`Tea/Proofs/Chunked.lean`, `Tea/Proofs/ChunkedRunes.lean`,
`Tea/Proofs/ChunkedStraddle.lean`, `Tea/Proofs/ChunkedStream.lean`,
`Tea/Proofs/ChunkedEvents.lean`, `Tea/Proofs/ChunkedEventsDoc.lean`.
-/
namespace Tea.Props.C15
open Tea Tea.Input Tea.Utf8 Tea.Input.Xterm

/-! ## 1. `canHaveMoreData` only holds back -/

/-- 1(a): the `canHaveMoreData` flag only adds early "need more data" returns: whenever
detectOneMsg with `more = true` returns a non-zero width, it returns the very same width and
message with `more = false`.  (So a completely filled read can delay a message, never change
it.) -/
theorem C15_more_only_holds_back (T : Table) (lens : List Nat) (b : Bytes) (w : Nat) (m : Option Msg)
    (h : detectOneMsg T lens b true = .ok (w, m)) (hw : 0 < w) :
    detectOneMsg T lens b false = .ok (w, m) :=
  detectOneMsg_true_false h (by omega)

/-- 1(b): on the same buffer, the decode loop with `more = true` emits a PREFIX of what the
loop with `more = false` emits: if it stops with outputs `out` and left-over `left`, then
`b = consumed(out) ++ left` and the `more = false` run emits `out` followed by the
`more = false` decoding of `left` (same final left-over, same panic if any). -/
theorem C15_loop_true_prefix_of_false (T : Table) (lens : List Nat) (hl : ∀ l ∈ lens, 0 < l)
    (b : Bytes) (out : List Out) (left : Bytes)
    (h : decodeLoop T lens true (b.length + 1) b [] = .ok (out, left)) :
    consumedOf out ++ left = b ∧
    oneShot T lens b =
      match oneShot T lens left with
      | .ok (out2, left2) => .ok (out ++ out2, left2)
      | .error e => .error e := by
  refine ⟨?_, decodeLoop_true_prefix T lens b out left h⟩
  obtain ⟨out', left', h1, h2, _⟩ := decodeLoop_spec T lens true hl (b.length + 1) b [] (by omega) (by simp)
  rw [h] at h1
  injection h1 with h1; injection h1 with e1 e2
  subst e1; subst e2
  simpa [consumedOf] using h2

/-- 1(c): one completely filled read followed by end of input: the EOF branch re-decodes the
held-back bytes with `canHaveMoreData = false`, and the overall result is EXACTLY the
one-shot decoding of left-over ++ chunk (messages, consumed bytes, final left-over). -/
theorem C15_full_read_then_eof (T : Table) (lens : List Nat) (hl : ∀ l ∈ lens, 0 < l) (c left : Bytes)
    (hc : c.length = bufSize) :
    readAll T lens true [c] left [] = oneShot T lens (left ++ c) :=
  readAll_full_then_eof T lens hl c left hc

/-! ## 2. holding back is sound -/

/-- 3: whatever a read holds back is handed to the next decode unchanged and in place: the
emitted messages followed by the new left-over are exactly (old left-over ++ chunk); over a
whole stream ended by EOF nothing held back is lost (the consumed runs are the whole input,
except possibly a final unterminated paste); and the EOF flush after a short read emits
nothing new (what a `more = false` run leaves is a fixed point of decoding). -/
theorem C15_hold_is_sound (T : Table) (lens : List Nat) (hl : ∀ l ∈ lens, 0 < l) :
    (∀ left chunk : Bytes, ∃ out left', processRead T lens left chunk = .ok (out, left') ∧
        consumedOf out ++ left' = left ++ chunk ∧
        (left' ≠ [] → HeldBack T left' (chunk.length == bufSize))) ∧
    (∀ chunks : List Bytes, ∃ out left, readAll T lens true chunks [] [] = .ok (out, left) ∧
        consumedOf out ++ left = chunks.flatten ∧ (left ≠ [] → UnterminatedPaste left)) ∧
    (∀ (b : Bytes) (out : List Out) (left : Bytes), oneShot T lens b = .ok (out, left) →
        oneShot T lens left = .ok ([], left)) := by
  refine ⟨?_, ?_, ?_⟩
  · intro left chunk
    obtain ⟨out, left', h1, h2, _, h4⟩ := processRead_spec T lens hl left chunk
    exact ⟨out, left', h1, h2, h4⟩
  · intro chunks
    obtain ⟨out, left, h1, h2, _, h4⟩ := readAll_spec T lens true hl chunks [] [] (by simp)
    refine ⟨out, left, h1, by simpa [consumedOf] using h2, ?_⟩
    intro hne
    rcases h4 rfl hne with h | h
    · exact h
    · simp at h
  · intro b out left h
    exact decodeLoop_false_left_fixed T lens false _ b [] out left (by omega) h

/-! ## 3. two reads in general -/

/-- the general shape of a full read followed by a short read (then EOF or any other error):
the first read emits `out1`, a prefix of the one-shot decoding of the FIRST chunk, and holds
back `left1`; the final result is `out1` followed by the one-shot decoding of
`left1 ++ c2`.  PARTIAL: what is NOT claimed is that `out1` is also a prefix of the one-shot
decoding of `c1 ++ c2` — that is false for some malformed inputs (`C15_unanchored_regex`
below); it is proved per event class in section 4. -/
theorem C15_two_reads_partial (T : Table) (lens : List Nat) (hl : ∀ l ∈ lens, 0 < l) (eof : Bool)
    (c1 c2 : Bytes) (hc1 : c1.length = bufSize) (hc2 : c2.length ≠ bufSize) :
    ∃ out1 left1, processRead T lens [] c1 = .ok (out1, left1) ∧ consumedOf out1 ++ left1 = c1 ∧
      (oneShot T lens c1 =
        match oneShot T lens left1 with
        | .ok (o, l) => .ok (out1 ++ o, l)
        | .error e => .error e) ∧
      (readAll T lens eof [c1, c2] [] [] =
        match oneShot T lens (left1 ++ c2) with
        | .ok (o, l) => .ok (out1 ++ o, l)
        | .error e => .error e) := by
  obtain ⟨out1, left1, h1, h2, _⟩ := processRead_spec T lens hl [] c1
  obtain ⟨o2, l2, g1, _⟩ := processRead_spec T lens hl left1 c2
  refine ⟨out1, left1, h1, by simpa using h2, ?_, ?_⟩
  · have hm : (c1.length == bufSize) = true := by simpa using hc1
    unfold processRead at h1
    rw [hm, List.nil_append] at h1
    exact decodeLoop_true_prefix T lens c1 out1 left1 h1
  · rw [readAll_two T lens eof c1 c2 [] hc2 out1 o2 left1 l2 h1 g1]
    have hm : (c2.length == bufSize) = false := by simpa using hc2
    unfold processRead at g1
    rw [hm] at g1
    unfold oneShot
    rw [g1]

/-! ## 4. printable characters -/

/-- a run of printable characters (valid scalar values above the space, not DEL, not U+FFFD),
of ANY length, delivered as full 256-byte reads followed by one short read: wherever the
buffer boundaries fall — between two characters or inside a multi-byte character — every
full read holds everything back, and the short read emits exactly ONE KeyRunes message with
exactly these characters, consuming the whole input.  This is literally the one-shot
decoding.  Nothing split, nothing dropped, no spurious key. -/
theorem C15_rune_run (T : Table) (lens : List Nat) (hl : ∀ l ∈ lens, 0 < l) (hT : ControlKeyed T)
    (eof : Bool) (rs : List Nat) (hp : ∀ r ∈ rs, printable r = true) (hrs : rs ≠ []) :
    readAll T lens eof (readsOf bufSize (encodeRunes rs) (encodeRunes rs).length) [] []
      = .ok ([{ msg := some (.key { type := keyRunes, runes := rs }), consumed := encodeRunes rs }], []) ∧
    readAll T lens eof (readsOf bufSize (encodeRunes rs) (encodeRunes rs).length) [] []
      = oneShot T lens (encodeRunes rs) := by
  have h := readAll_run T lens hl hT eof rs hp hrs (encodeRunes rs).length (encodeRunes rs) []
    (Nat.le_refl _) (by simp)
  refine ⟨h, ?_⟩
  rw [h]
  exact (decodeLoop_run T lens hl hT rs hp hrs).symm

/-- the multi-byte character across the boundary, spelled out: ASCII letters, then any
printable character `r` (in particular a 2-, 3- or 4-byte one), then ASCII letters, of any
lengths — so in particular with the 256-byte boundary strictly inside the encoding of `r` —
give exactly one message whose runes are the letters, `r`, the letters. -/
theorem C15_rune_straddle (T : Table) (lens : List Nat) (hl : ∀ l ∈ lens, 0 < l) (hT : ControlKeyed T)
    (eof : Bool) (pad tail : Bytes) (r : Nat) (hr : printable r = true)
    (hpad : ∀ c ∈ pad, 0x61 ≤ c ∧ c ≤ 0x7a) (htail : ∀ c ∈ tail, 0x61 ≤ c ∧ c ≤ 0x7a) :
    readAll T lens eof
      (readsOf bufSize (pad ++ encodeRune r ++ tail) (pad ++ encodeRune r ++ tail).length) [] []
      = .ok ([{ msg := some (.key { type := keyRunes, runes := pad ++ [r] ++ tail }),
                consumed := pad ++ encodeRune r ++ tail }], []) := by
  have hascii : ∀ (l : Bytes), (∀ c ∈ l, 0x61 ≤ c ∧ c ≤ 0x7a) → encodeRunes l = l := by
    intro l
    induction l with
    | nil => intro _; rfl
    | cons c cs ih =>
      intro h
      have hc := h c (by simp)
      rw [encodeRunes_cons, ih (fun c' hc' => h c' (by simp [hc']))]
      have : encodeRune c = [c] := by
        unfold encodeRune
        rw [if_pos (by omega)]
      rw [this]; rfl
  have hletter : ∀ c, 0x61 ≤ c ∧ c ≤ 0x7a → printable c = true := by
    intro c hc
    rw [printable_iff]
    refine ⟨?_, by omega, by omega, ?_⟩
    · simp [validScalar]; omega
    · simp [runeError]; omega
  have henc : encodeRunes (pad ++ [r] ++ tail) = pad ++ encodeRune r ++ tail := by
    simp only [encodeRunes, List.flatMap_append, List.flatMap_cons, List.flatMap_nil, List.append_nil]
    have h1 := hascii pad hpad
    have h2 := hascii tail htail
    simp only [encodeRunes] at h1 h2
    rw [h1, h2]
  have hp : ∀ c ∈ pad ++ [r] ++ tail, printable c = true := by
    intro c hc
    simp only [List.mem_append, List.mem_singleton] at hc
    rcases hc with (h | h) | h
    · exact hletter c (hpad c h)
    · rw [h]; exact hr
    · exact hletter c (htail c h)
  have := (C15_rune_run T lens hl hT eof (pad ++ [r] ++ tail) hp (by simp)).1
  rw [henc] at this
  exact this

/-! ## 5. events across one boundary -/

/-- the generic straddle: printable padding `ps` (emitted as one KeyRunes message), then an
event `ESC ev'` that the 256-byte boundary cuts after `k` bytes (`0 < k < length`), then any
`tail` short enough for the second read not to fill the buffer.  IF the cut beginning of the
event is held back when the read filled the buffer (`hheld`), and one-shot detection takes
the event whole (`hev`, whatever message `m` it is), THEN the reader emits exactly what
one-shot decoding of the whole input emits: the padding, the event as ONE message consuming
exactly the event's bytes, then the decoding of the tail. -/
theorem C15_event_straddle (T : Table) (lens : List Nat) (hl : ∀ l ∈ lens, 0 < l) (hT : ControlKeyed T)
    (eof : Bool) (ps : List Nat) (hp : ∀ r ∈ ps, printable r = true) (hps : ps ≠ [])
    (ev' tail : Bytes) (k : Nat) (m : Option Msg)
    (hk : 0 < k) (hk' : k < (0x1b :: ev').length)
    (hcut : (encodeRunes ps).length + k = bufSize)
    (hshort : (0x1b :: ev').length - k + tail.length < bufSize)
    (hheld : detectOneMsg T lens ((0x1b :: ev').take k) true = .ok (0, none))
    (hev : detectOneMsg T lens ((0x1b :: ev') ++ tail) false = .ok ((0x1b :: ev').length, m)) :
    readAll T lens eof
        (readsOf bufSize (encodeRunes ps ++ (0x1b :: ev') ++ tail) (encodeRunes ps ++ (0x1b :: ev') ++ tail).length)
        [] []
      = oneShot T lens (encodeRunes ps ++ (0x1b :: ev') ++ tail) ∧
    ∃ o l, oneShot T lens tail = .ok (o, l) ∧
      oneShot T lens (encodeRunes ps ++ (0x1b :: ev') ++ tail)
        = .ok ({ msg := some (.key { type := keyRunes, runes := ps }), consumed := encodeRunes ps }
                :: { msg := m, consumed := 0x1b :: ev' } :: o, l) := by
  obtain ⟨o, l, htail, _⟩ := decodeLoop_spec T lens false hl (tail.length + 1) tail [] (by omega) (by simp)
  obtain ⟨h1, h2⟩ := readAll_straddle T lens hl hT eof ps hp hps ev' tail k m hk hk' hcut hshort hheld hev o l htail
  exact ⟨by rw [h1, h2], o, l, htail, h2⟩

/-- an SGR mouse report `ESC [ < b ; x ; y M/m` cut ANYWHERE by the buffer boundary (after
printable padding of the matching length, for all numbers `b x y`, any tail that keeps the
second read short): the reader emits exactly what one-shot decoding emits — the padding, ONE
mouse message with the button, modifiers and zero-based cell of `C11_sgr`, consuming exactly
the report, then the tail.  No part of the report becomes a key press. -/
theorem C15_mouse_straddle (T : Table) (lens : List Nat) (hl : ∀ l ∈ lens, 0 < l) (hT : ControlKeyed T)
    (hesc : isProperPrefixOfKey T [0x1b] = true)
    (eof : Bool) (ps : List Nat) (hp : ∀ r ∈ ps, printable r = true) (hps : ps ≠ [])
    (b x y fin : Nat) (hfin : fin = 77 ∨ fin = 109) (tail : Bytes) (k : Nat)
    (hk : 0 < k) (hk' : k < (sgrReport b x y fin).length)
    (hcut : (encodeRunes ps).length + k = bufSize)
    (hshort : (sgrReport b x y fin).length - k + tail.length < bufSize) :
    readAll T lens eof
        (readsOf bufSize (encodeRunes ps ++ sgrReport b x y fin ++ tail)
          (encodeRunes ps ++ sgrReport b x y fin ++ tail).length) [] []
      = oneShot T lens (encodeRunes ps ++ sgrReport b x y fin ++ tail) ∧
    ∃ o l, oneShot T lens tail = .ok (o, l) ∧
      oneShot T lens (encodeRunes ps ++ sgrReport b x y fin ++ tail)
        = .ok ({ msg := some (.key { type := keyRunes, runes := ps }), consumed := encodeRunes ps }
                :: { msg := some (.mouse (event (decode true (min b Dec.maxInt64) (fin == 109))
                        (Int.ofNat (min x Dec.maxInt64) - 1) (Int.ofNat (min y Dec.maxInt64) - 1))),
                     consumed := sgrReport b x y fin } :: o, l) := by
  have hev := detectOneMsg_sgr T lens false b x y fin hfin tail rfl
  rw [← sgrReport_append, ← sgrReport_length] at hev
  have hheld := isIncomplete_held T lens _
    (csi_cut_incomplete T hesc _ (sgr_params b x y) fin k hk (by rw [← sgrReport_csi]; exact hk'))
  rw [← sgrReport_csi] at hheld
  rw [sgrReport_csi] at hk' hshort hheld hev
  have := C15_event_straddle T lens hl hT eof ps hp hps _ tail k _ hk hk' hcut hshort hheld hev
  rw [← sgrReport_csi] at this
  exact this

/-- the same for an X10 mouse report `ESC [ M cb cx cy` (`cb ≥ 32`) cut anywhere -/
theorem C15_x10_straddle (T : Table) (lens : List Nat) (hl : ∀ l ∈ lens, 0 < l) (hT : ControlKeyed T)
    (hesc : isProperPrefixOfKey T [0x1b] = true)
    (eof : Bool) (ps : List Nat) (hp : ∀ r ∈ ps, printable r = true) (hps : ps ≠ [])
    (cb cx cy : Nat) (hcb : 32 ≤ cb) (tail : Bytes) (k : Nat)
    (hk : 0 < k) (hk' : k < 6)
    (hcut : (encodeRunes ps).length + k = bufSize)
    (hshort : 6 - k + tail.length < bufSize) :
    readAll T lens eof
        (readsOf bufSize (encodeRunes ps ++ x10Report cb cx cy ++ tail)
          (encodeRunes ps ++ x10Report cb cx cy ++ tail).length) [] []
      = oneShot T lens (encodeRunes ps ++ x10Report cb cx cy ++ tail) ∧
    ∃ o l, oneShot T lens tail = .ok (o, l) ∧
      oneShot T lens (encodeRunes ps ++ x10Report cb cx cy ++ tail)
        = .ok ({ msg := some (.key { type := keyRunes, runes := ps }), consumed := encodeRunes ps }
                :: { msg := some (.mouse (event (decode false (cb - 32) false)
                        (Int.ofNat cx - 32 - 1) (Int.ofNat cy - 32 - 1))),
                     consumed := x10Report cb cx cy } :: o, l) := by
  have hm := detectMouse_x10 cb cx cy tail
  rw [x10_parse cb hcb] at hm
  have hev : detectOneMsg T lens (x10Report cb cx cy ++ tail) false = .ok (6, _) :=
    detectOneMsg_of_mouse T lens _ false rfl hm
  have hheld := isIncomplete_held T lens _ (x10_cut_incomplete T hesc cb cx cy k hk hk')
  exact C15_event_straddle T lens hl hT eof ps hp hps [0x5b, 0x4d, cb, cx, cy] tail k _ hk
    (by simpa using hk') hcut (by simpa using hshort) hheld hev

/-- a key sequence of the table (starting with ESC: arrow keys, function keys, ...) cut
ANYWHERE by the buffer boundary: whatever one-shot detection makes of the sequence followed
by the tail — as long as it takes the sequence whole (`hev`; for a table without ambiguities
that is the key of the entry) — the reader emits exactly the same, with the sequence as ONE
message.  The cut beginning is held back because it is a proper prefix of a known sequence;
no hypothesis on the table beyond `ControlKeyed` is needed for that. -/
theorem C15_csi_straddle (T : Table) (lens : List Nat) (hl : ∀ l ∈ lens, 0 < l) (hT : ControlKeyed T)
    (eof : Bool) (ps : List Nat) (hp : ∀ r ∈ ps, printable r = true) (hps : ps ≠ [])
    (e : Entry) (he : e ∈ T) (ev' : Bytes) (hseq : e.seq = 0x1b :: ev') (tail : Bytes) (k : Nat) (m : Option Msg)
    (hk : 0 < k) (hk' : k < e.seq.length)
    (hcut : (encodeRunes ps).length + k = bufSize)
    (hshort : e.seq.length - k + tail.length < bufSize)
    (hev : detectOneMsg T lens (e.seq ++ tail) false = .ok (e.seq.length, m)) :
    readAll T lens eof
        (readsOf bufSize (encodeRunes ps ++ e.seq ++ tail) (encodeRunes ps ++ e.seq ++ tail).length) [] []
      = oneShot T lens (encodeRunes ps ++ e.seq ++ tail) ∧
    ∃ o l, oneShot T lens tail = .ok (o, l) ∧
      oneShot T lens (encodeRunes ps ++ e.seq ++ tail)
        = .ok ({ msg := some (.key { type := keyRunes, runes := ps }), consumed := encodeRunes ps }
                :: { msg := m, consumed := e.seq } :: o, l) := by
  have hheld := isIncomplete_held T lens _ (key_cut_incomplete T e he ev' hseq k hk hk')
  rw [hseq] at hk' hshort hheld hev ⊢
  exact C15_event_straddle T lens hl hT eof ps hp hps ev' tail k m hk hk' hcut hshort hheld hev

/-- a whole bracketed paste `ESC[200~ payload ESC[201~` (payload without the end marker) cut
ANYWHERE by the buffer boundary — inside the start marker, the payload or the end marker:
the reader emits exactly what one-shot decoding emits: the padding, ONE paste message with
the runes of the payload, consuming exactly the paste, then the tail.  (Pastes longer than a
buffer, split over any number of reads once the start marker is in, are C10's theorems.) -/
theorem C15_paste_straddle (T : Table) (lens : List Nat) (hl : ∀ l ∈ lens, 0 < l) (hT : ControlKeyed T)
    (hesc : isProperPrefixOfKey T [0x1b] = true)
    (eof : Bool) (ps : List Nat) (hp : ∀ r ∈ ps, printable r = true) (hps : ps ≠ [])
    (p : Bytes) (hpe : ¬ bpEnd <:+: p) (tail : Bytes) (k : Nat)
    (hk : 0 < k) (hk' : k < (bpStart ++ p ++ bpEnd).length)
    (hcut : (encodeRunes ps).length + k = bufSize)
    (hshort : (bpStart ++ p ++ bpEnd).length - k + tail.length < bufSize) :
    readAll T lens eof
        (readsOf bufSize (encodeRunes ps ++ (bpStart ++ p ++ bpEnd) ++ tail)
          (encodeRunes ps ++ (bpStart ++ p ++ bpEnd) ++ tail).length) [] []
      = oneShot T lens (encodeRunes ps ++ (bpStart ++ p ++ bpEnd) ++ tail) ∧
    ∃ o l, oneShot T lens tail = .ok (o, l) ∧
      oneShot T lens (encodeRunes ps ++ (bpStart ++ p ++ bpEnd) ++ tail)
        = .ok ({ msg := some (.key { type := keyRunes, runes := ps }), consumed := encodeRunes ps }
                :: { msg := some (.key { type := keyRunes, paste := true, runes := pasteRunes p.length p }),
                     consumed := bpStart ++ p ++ bpEnd } :: o, l) := by
  have hheld := paste_cut_held T lens hesc p hpe k hk hk'
  have hev : detectOneMsg T lens (bpStart ++ p ++ bpEnd ++ tail) false
      = .ok ((bpStart ++ p ++ bpEnd).length,
          some (.key { type := keyRunes, paste := true, runes := pasteRunes p.length p, alt := false })) := by
    have hb : bpStart ++ p ++ bpEnd ++ tail = bpStart ++ (p ++ bpEnd ++ tail) := by
      simp [List.append_assoc]
    rw [hb, detectOneMsg_bpStart T lens _ false (Or.inl rfl), indexOf_end p tail hpe]
    simp only
    rw [List.append_assoc, List.take_left' rfl]
    have : (bpStart ++ p ++ bpEnd).length = 12 + p.length := by
      simp [bpStart, bpEnd]; omega
    rw [this]
    rfl
  rw [paste_event_cons] at hk' hshort hheld hev ⊢
  exact C15_event_straddle T lens hl hT eof ps hp hps _ tail k _ hk hk' hcut hshort hheld hev

/-- alt + a character `ESC utf8(r)` cut ANYWHERE by the buffer boundary — right after the ESC,
or inside a multi-byte character (`k` is the number of bytes of the event in the first read,
`0 < k < 1 + length of utf8(r)`) — after printable padding of the matching length, with any
tail that keeps the second read short: the reader emits exactly what one-shot decoding emits —
the padding, ONE message alt+`r` (`KeyRunes`, exactly one rune, `Alt`) consuming exactly
`ESC utf8(r)`, then the tail.  The ESC is not delivered as an escape key, no byte of the
character becomes an invalid-byte message, and the character is not merged into what follows.
The cut beginning is held back: `ESC` alone because some longer key starts with ESC (`hesc`,
`isIncompleteEvent`); `ESC` + a truncated character by the `FullRune` test of the rune loop.
The three hypotheses on `r` are exactly `(Ev.altRune r).ok T`.  A corollary of
`C15_event_straddle`. -/
theorem C15_altrune_straddle (T : Table) (lens : List Nat) (hl : ∀ l ∈ lens, 0 < l) (hT : ControlKeyed T)
    (hesc : isProperPrefixOfKey T [0x1b] = true)
    (eof : Bool) (ps : List Nat) (hp : ∀ r ∈ ps, printable r = true) (hps : ps ≠ [])
    (r : Nat) (hr : printable r = true) (h5 : r ≠ 0x5b)
    (hinc : incomparableB T (0x1b :: encodeRune r) = true) (tail : Bytes) (k : Nat)
    (hk : 0 < k) (hk' : k < (0x1b :: encodeRune r).length)
    (hcut : (encodeRunes ps).length + k = bufSize)
    (hshort : (0x1b :: encodeRune r).length - k + tail.length < bufSize) :
    readAll T lens eof
        (readsOf bufSize (encodeRunes ps ++ (0x1b :: encodeRune r) ++ tail)
          (encodeRunes ps ++ (0x1b :: encodeRune r) ++ tail).length) [] []
      = oneShot T lens (encodeRunes ps ++ (0x1b :: encodeRune r) ++ tail) ∧
    ∃ o l, oneShot T lens tail = .ok (o, l) ∧
      oneShot T lens (encodeRunes ps ++ (0x1b :: encodeRune r) ++ tail)
        = .ok ({ msg := some (.key { type := keyRunes, runes := ps }), consumed := encodeRunes ps }
                :: { msg := some (.key { type := keyRunes, runes := [r], alt := true }),
                     consumed := 0x1b :: encodeRune r } :: o, l) :=
  C15_event_straddle T lens hl hT eof ps hp hps (encodeRune r) tail k _ hk hk' hcut hshort
    (altRune_cut_held lens hesc r hr h5 hinc k hk hk')
    (altRune_detect lens r hr h5 hinc tail false (Or.inr rfl))

/-! ## 6. streams over any number of reads -/

/-- condition (c) of `CutStable` from a fact about a short read: an event that, standing alone,
decodes to its message with `canHaveMoreData = false`, is — alone at the very end of a
completely filled read — decoded to the same message or held back whole (by 1(a): the flag
only holds back). -/
theorem C15_cut_end_of_alone (T : Table) (lens : List Nat) (hl : ∀ l ∈ lens, 0 < l) (s : Bytes) (m : Msg)
    (hne : s ≠ []) (h : detectOneMsg T lens s false = .ok (s.length, some m)) :
    detectOneMsg T lens s true = .ok (s.length, some m) ∨ detectOneMsg T lens s true = .ok (0, none) := by
  obtain ⟨w, m', hd, _, _, hz⟩ := detectOneMsg_spec T lens s true hne hl
  by_cases hw : w = 0
  · right; rw [hd, hw, (hz hw).1]
  · left
    have := detectOneMsg_true_false hd hw
    rw [h] at this
    rw [hd, ← this]

/-- THE GENERAL THEOREM (any key table).  A stream of events `(bytes, message)`, of ANY length,
that is well-formed for a short read (`StreamOK`: every event decodes to its message in front
of the events after it) and stable under cuts (`CutStable`, `Tea/Input/StreamSpec.lean`: for
every event, (a) a proper prefix alone at the end of a completely filled read is held back,
(b) the event followed by the beginning of the next events still decodes to its message,
(c) the event alone at the end of a completely filled read is decoded or held back whole),
delivered as completely filled 256-byte reads followed by one short read — wherever the buffer
boundaries fall, over any number of reads — is decoded to exactly its events, in order, each
consuming exactly its own bytes, with nothing left over, whether the final error is EOF or
not; and that is literally what decoding the whole input at once gives.  Nothing split, nothing
dropped, no spurious key. -/
theorem C15_stream (T : Table) (lens : List Nat) (hl : ∀ l ∈ lens, 0 < l) (eof : Bool)
    (evs : List (Bytes × Msg)) (hok : StreamOK T lens evs) (hcut : CutStable T lens evs) :
    let s := (evs.map Prod.fst).flatten
    readAll T lens eof (readsOf bufSize s s.length) [] []
      = .ok (evs.map (fun p => { msg := some p.2, consumed := p.1 }), []) ∧
    readAll T lens eof (readsOf bufSize s s.length) [] [] = oneShot T lens s := by
  have _ := hl
  have h1 := readAll_stream T lens eof (streamBytes evs).length evs [] (streamBytes evs) []
    hok hcut (Nat.le_refl _) rfl
  have h2 := decodeLoop_stream_false T lens evs [] ((streamBytes evs).length + 1) hok (by omega)
  simp only [List.nil_append, List.reverse_nil] at h1 h2
  exact ⟨h1, by rw [h1]; exact h2.symm⟩

/-- the state of the reader between two reads, spelled out (the invariant of `C15_stream`):
after a completely filled read whose end is `k` bytes into a `StreamOK`, `CutStable` stream,
the reader has emitted exactly the first `n` events, for some `n`, and holds back exactly the
bytes from the start of event `n` up to the cut. -/
theorem C15_stream_cut (T : Table) (lens : List Nat) (evs : List (Bytes × Msg))
    (hok : StreamOK T lens evs) (hcut : CutStable T lens evs) (k : Nat)
    (hk : k ≤ ((evs.map Prod.fst).flatten).length) :
    ∃ n left, decodeLoop T lens true (k + 1) (((evs.map Prod.fst).flatten).take k) []
        = .ok ((evs.take n).map (fun p => { msg := some p.2, consumed := p.1 }), left) ∧
      left ++ ((evs.map Prod.fst).flatten).drop k = ((evs.drop n).map Prod.fst).flatten := by
  obtain ⟨n, left, h1, h2⟩ := decodeLoop_cut T lens evs hok hcut k (k + 1) [] hk (by omega)
  exact ⟨n, left, by simpa using h1, h2⟩

/-- THE EVENT CLASSES OF THE PROPERTY satisfy the hypotheses of `C15_stream`, for every key
table with the `TableOK` properties: a stream built from the grammar `Ev`
(`Tea/Input/StreamSpec.lean`) — maximal runs of printable characters (multi-byte ones
included), key sequences of the table (CSI / SS3 keys, alt variants, control characters,
space), SGR and X10 mouse reports, bracketed pastes of ANY length (also longer than the
buffer), CSI sequences unknown to the table, NUL, alt + one printable character (`ESC` + the
UTF-8 encoding of the character, multi-byte ones included) — under the decidable side
conditions `WellFormed`, is `StreamOK` and `CutStable`. -/
theorem C15_events_cutStable (T : Table) (lens : List Nat) (hT : TableOK T lens) (evs : List Ev)
    (hwf : WellFormed T evs = true) :
    StreamOK T lens (evStream evs) ∧ CutStable T lens (evStream evs) :=
  evStream_ok hT evs hwf

/-- hence: every well-formed stream of such events, of any length, in any order, with the
256-byte boundaries anywhere (inside a multi-byte character, a key sequence, a mouse report,
a paste or its markers, a CSI sequence; between the ESC of alt + character and the character, or
inside that character; right after an event; several boundaries inside one event), read in completely filled reads followed by a short read, is decoded to exactly
`evs.map Ev.msg`, each message consuming exactly `Ev.bytes` of its event — and that is the
one-shot decoding of the whole input. -/
theorem C15_stream_events (T : Table) (lens : List Nat) (hT : TableOK T lens) (eof : Bool) (evs : List Ev)
    (hwf : WellFormed T evs = true) :
    let s := (evs.map Ev.bytes).flatten
    readAll T lens eof (readsOf bufSize s s.length) [] []
      = .ok (evs.map (fun e => { msg := some e.msg, consumed := e.bytes }), []) ∧
    readAll T lens eof (readsOf bufSize s s.length) [] [] = oneShot T lens s := by
  obtain ⟨hok, hcut⟩ := evStream_ok hT evs hwf
  have h := C15_stream T lens hT.lensPos eof (evStream evs) hok hcut
  have e1 : ((evStream evs).map Prod.fst) = evs.map Ev.bytes := by simp [evStream]
  have e2 : (evStream evs).map (fun p => ({ msg := some p.2, consumed := p.1 } : Out))
      = evs.map (fun e => { msg := some e.msg, consumed := e.bytes }) := by simp [evStream]
  simp only [e1, e2] at h
  exact h

/-- the table the code derives from the documented table, and the lengths it tries (the same
definitions as in `Tea/Props/C08.lean`) -/
abbrev docTable : Table := deriveExt Tea.Doc.sequences
abbrev docLens : List Nat := descLengths docTable

theorem C15_doc_wf : WFTable docTable := wfTable_of_B (by decide +kernel)

/-- the derived documented table satisfies every table hypothesis of `C15_stream_events` -/
theorem C15_doc_tableOK : TableOK docTable docLens where
  consistent := consistent_deriveExt (by decide +kernel) (by decide +kernel)
  introFree := by decide +kernel
  wf := C15_doc_wf
  esc := by decide +kernel
  lensDesc := descLengths_pairwise _
  lensAll := fun e he => (mem_descLengths _ _).2 ⟨e, he, rfl⟩
  lensPos := descLengths_pos (fun e he => by
    obtain ⟨c, tl, h, _⟩ := C15_doc_wf e he
    rw [h]; simp)

/-- which keys of the documented table the grammar accepts: EVERY entry of the derived table
(the 142 documented sequences, their alt variants, the control characters with and without
ESC, space, alt+space) except three: `ESC ESC` (alt+escape: a proper prefix of every alt
variant, inherently ambiguous at the end of a buffer) and urxvt's `ESC [ 7 $` / `ESC [ 8 $`
(shift+home / shift+end: `$` is a CSI intermediate byte, so the decoder's own
`isIncompleteEvent` test takes them for unfinished CSI sequences). -/
theorem C15_doc_keys_ok : ∀ e ∈ docTable,
    e.seq ≠ [27, 27] → e.seq ≠ [27, 91, 55, 36] → e.seq ≠ [27, 91, 56, 36] →
    (Ev.key e).ok docTable = true := by
  intro e he h1 h2 h3
  simp only [Ev.ok, Bool.and_eq_true, decide_eq_true_eq]
  exact ⟨he, docKeys_stable e he h1 h2 h3⟩

/-- NUL is accepted: no key of the documented table starts with it -/
theorem C15_doc_nul_ok : Ev.nul.ok docTable = true := by decide +kernel

/-- which alt + character events the grammar accepts over the documented table: alt + EVERY
printable character (valid scalar value above the space, not DEL, not U+FFFD) except `[` and
`O` — `ESC [` opens CSI sequences, mouse reports, pastes and focus reports, `ESC O` the SS3
keys: there the bytes that follow decide. -/
theorem C15_doc_altrune_ok (r : Nat) (hr : printableScalar r = true) (h5 : r ≠ 0x5b) (hO : r ≠ 0x4f) :
    (Ev.altRune r).ok docTable = true :=
  docAltRune_ok r hr h5 hO

/-- ... and these two really are rejected (they are proper prefixes of documented keys) -/
example : (Ev.altRune 0x5b).ok docTable = false ∧ (Ev.altRune 0x4f).ok docTable = false := by
  constructor <;> decide +kernel

/-- THE DOCUMENTED TABLE: every well-formed stream of events over the documented key table,
read in full-buffer chunks = one-shot decoding = `evs.map Ev.msg`. -/
theorem C15_stream_doc (eof : Bool) (evs : List Ev) (hwf : WellFormed docTable evs = true) :
    let s := (evs.map Ev.bytes).flatten
    readAll docTable docLens eof (readsOf bufSize s s.length) [] []
      = .ok (evs.map (fun e => { msg := some e.msg, consumed := e.bytes }), []) ∧
    readAll docTable docLens eof (readsOf bufSize s s.length) [] [] = oneShot docTable docLens s :=
  C15_stream_events docTable docLens C15_doc_tableOK eof evs hwf

/-- a concrete stream of 587 bytes (three reads: 256, 256, 75) with every event kind but alt +
character (that is `demoAltStream` below):
text with 2-, 3- and 4-byte characters, up arrow, an SGR report, an X10 report, an unknown CSI
sequence, enter, NUL, text, an SGR report that straddles the first boundary (bytes 254–265), a paste
of 300 bytes (longer than the buffer) that straddles the second boundary (bytes 266–577),
ctrl+up, text -/
def demoStream : List Ev :=
  [ .run (List.replicate 100 0x61 ++ [0xe9, 0x4e16, 0x1f600]),
    .key { seq := [27, 91, 65], key := { type := -2 } },
    .sgr 0 10 5 77,
    .x10 32 33 34,
    .csi [57, 57, 57] [] 122,
    .key { seq := [13], key := { type := 13 } },
    .nul,
    .run (List.replicate 118 0x62),
    .sgr 2 120 40 109,
    .paste (List.replicate 300 0x63),
    .key { seq := [27, 91, 49, 59, 53, 65], key := { type := -16 } },
    .run [0x65, 0x6e, 0x64] ]

/-- the side conditions hold (decidable), the stream is longer than two buffers, and the two
boundaries fall inside the second SGR report and inside the paste -/
theorem C15_demo_wellFormed : WellFormed docTable demoStream = true ∧
    ((demoStream.map Ev.bytes).flatten).length = 587 ∧
    (((demoStream.take 8).map Ev.bytes).flatten).length = 254 ∧
    (((demoStream.take 9).map Ev.bytes).flatten).length = 266 ∧
    (((demoStream.take 10).map Ev.bytes).flatten).length = 578 := by
  refine ⟨by decide +kernel, by decide +kernel, by decide +kernel, by decide +kernel, by decide +kernel⟩

/-- non-vacuity of `C15_stream_doc`: the demo stream, read as 256 + 256 + 75 bytes, gives
exactly its twelve messages (through the theorem, no computation of the reader) -/
example : readAll docTable docLens true
      (readsOf bufSize (demoStream.map Ev.bytes).flatten (demoStream.map Ev.bytes).flatten.length) [] []
    = .ok (demoStream.map (fun e => { msg := some e.msg, consumed := e.bytes }), []) :=
  (C15_stream_doc true demoStream C15_demo_wellFormed.1).1

/-- a second concrete stream, 522 bytes (three reads: 256, 256, 10), with alt + character across
both boundaries: 255 letters; alt+`é` (`ESC C3 A9`, bytes 255–257: the first boundary falls
BETWEEN the ESC and the character); text right after it (alt takes exactly one character); up
arrow; alt+`x`; an SGR report; text; alt+`😀` (`ESC F0 9F 98 80`, bytes 509–513: the second
boundary falls INSIDE the character, after `F0 9F`) right after a run (the ESC stops the run);
alt+`世` right after it; enter; text -/
def demoAltStream : List Ev :=
  [ .run (List.replicate 255 0x61),
    .altRune 0xe9,
    .run (List.replicate 100 0x62),
    .key { seq := [27, 91, 65], key := { type := -2 } },
    .altRune 0x78,
    .sgr 0 10 5 77,
    .run (List.replicate 136 0x63),
    .altRune 0x1f600,
    .altRune 0x4e16,
    .key { seq := [13], key := { type := 13 } },
    .run [0x65, 0x6e, 0x64] ]

/-- the side conditions hold (decidable), the stream is longer than two buffers, the ESC of
alt+`é` is byte 255 (the last of the first read), and alt+`😀` is bytes 509–513 (so the second
read ends after `ESC F0 9F`) -/
theorem C15_demoAlt_wellFormed : WellFormed docTable demoAltStream = true ∧
    ((demoAltStream.map Ev.bytes).flatten).length = 522 ∧
    (((demoAltStream.take 1).map Ev.bytes).flatten).length = 255 ∧
    (((demoAltStream.take 2).map Ev.bytes).flatten).length = 258 ∧
    (((demoAltStream.take 7).map Ev.bytes).flatten).length = 509 ∧
    (((demoAltStream.take 8).map Ev.bytes).flatten).length = 514 ∧
    ((demoAltStream.map Ev.bytes).flatten).take 256 = List.replicate 255 0x61 ++ [0x1b] ∧
    (((demoAltStream.map Ev.bytes).flatten).take 512).drop 509 = [0x1b, 0xf0, 0x9f] := by
  refine ⟨by decide +kernel, by decide +kernel, by decide +kernel, by decide +kernel, by decide +kernel,
    by decide +kernel, by decide +kernel, by decide +kernel⟩

/-- non-vacuity of `C15_stream_doc` for alt + character: the second demo stream, read as
256 + 256 + 10 bytes, gives exactly its eleven messages (through the theorem) -/
example : readAll docTable docLens true
      (readsOf bufSize (demoAltStream.map Ev.bytes).flatten (demoAltStream.map Ev.bytes).flatten.length) [] []
    = .ok (demoAltStream.map (fun e => { msg := some e.msg, consumed := e.bytes }), []) :=
  (C15_stream_doc true demoAltStream C15_demoAlt_wellFormed.1).1

/-- ... whose second and eighth messages are alt+`é` and alt+`😀`, each ONE KeyRunes message with
one rune and `Alt` -/
example : (demoAltStream.map Ev.msg)[1]? = some (.key { type := keyRunes, runes := [0xe9], alt := true }) ∧
    (demoAltStream.map Ev.msg)[7]? = some (.key { type := keyRunes, runes := [0x1f600], alt := true }) := by
  decide

/-! ## 7. why the unconditional statement is false of the model; non-vacuity -/

/- `T0` (`Tea/Proofs/ChunkedStraddle.lean`) is a one-entry table, the up-arrow key `ESC [ A`;
`malformed` is 247 letters, then `ESC [ < a 1 ; 2 ;` up to the 256-byte boundary, then `3 M`. -/

/-- COUNTEREXAMPLE to the unconditional statement (why section 5 is per event class): on the
malformed input above, chunked and one-shot decoding differ in the model.  The first read
ends with `ESC [ < a 1 ; 2 ;`, which is no incomplete event (the CSI `ESC [ < a` is complete),
so `ESC [ < a` is emitted as an unknown CSI sequence (4 bytes) and `1;2;` + `3M` becomes
text (6 bytes); decoded at once, the UNANCHORED regular expression `(\d+);(\d+);(\d+)([Mm])`
finds `1;2;3M` one byte after `ESC [ <` and the whole 10 bytes become one mouse message.  No
terminal sends such input; for well-formed SGR reports see `C15_mouse_straddle`. -/
theorem C15_unanchored_regex :
    ((readAll T0 [3] true (readsOf bufSize malformed malformed.length) [] []).toOption.map
        (fun r => r.1.map (·.consumed.length))) = some [247, 4, 6] ∧
    ((oneShot T0 [3] malformed).toOption.map (fun r => r.1.map (·.consumed.length))) = some [247, 10] := by
  constructor
  · decide +kernel
  · decide +kernel

/-- the same divergence at the level of detectOneMsg: with `more = true` the cut buffer gives
an unknown CSI of width 4; the completed buffer gives a mouse message of width 10 -/
example :
    (detectOneMsg T0 [3] [0x1b, 0x5b, 0x3c, 0x61, 0x31, 0x3b, 0x32, 0x3b] true).toOption
      = some (4, some (.unknownCSI [0x1b, 0x5b, 0x3c, 0x61])) ∧
    ((detectOneMsg T0 [3] [0x1b, 0x5b, 0x3c, 0x61, 0x31, 0x3b, 0x32, 0x3b, 0x33, 0x4d] false).toOption.map (·.1))
      = some 10 := by
  decide

/-- the table hypotheses are satisfiable (and decidable on a concrete table) -/
example : ControlKeyed T0 := controlKeyed_of_B (by decide)
example : isProperPrefixOfKey T0 [0x1b] = true := by decide

/-- `é` (C3 A9) cut by the end of a completely filled buffer: held back (`more = true`),
where the same bytes after a short read give the letter and then an invalid byte -/
example : (detectOneMsg T0 [3] [0x61, 0xc3] true).toOption = some (0, none) ∧
    (detectOneMsg T0 [3] [0x61, 0xc3] false).toOption
      = some (1, some (.key { type := keyRunes, runes := [0x61] })) := by
  decide

/-- non-vacuity of `C15_rune_straddle`: 255 letters, `é` with the 256-byte boundary between its
two bytes, then "tail": exactly one message, through the theorem (no computation) -/
example :
    readAll T0 [3] true
      (readsOf bufSize (List.replicate 255 0x61 ++ encodeRune 0xe9 ++ [0x74, 0x61, 0x69, 0x6c])
        (List.replicate 255 0x61 ++ encodeRune 0xe9 ++ [0x74, 0x61, 0x69, 0x6c]).length) [] []
      = .ok ([{ msg := some (.key { type := keyRunes,
                                    runes := List.replicate 255 0x61 ++ [0xe9] ++ [0x74, 0x61, 0x69, 0x6c] }),
                consumed := List.replicate 255 0x61 ++ encodeRune 0xe9 ++ [0x74, 0x61, 0x69, 0x6c] }], []) :=
  C15_rune_straddle T0 [3] (by decide) (controlKeyed_of_B (by decide)) true _ _ 0xe9 (by decide)
    (by intro c hc; rw [List.eq_of_mem_replicate hc]; decide) (by decide)

/-- ... and the boundary really is inside the character: the first read is 255 letters + C3 -/
example : encodeRune 0xe9 = [0xc3, 0xa9] ∧ (List.replicate 255 0x61 ++ [0xc3]).length = bufSize :=
  ⟨by decide, by decide +kernel⟩

/-- non-vacuity of `C15_mouse_straddle`: 250 letters, then `ESC[<0;10;5M` (11 bytes) cut after
6 bytes, then a letter: the hypotheses hold, so chunked = one-shot with one mouse message -/
example :
    readAll T0 [3] true
      (readsOf bufSize (encodeRunes (List.replicate 250 0x61) ++ sgrReport 0 10 5 77 ++ [0x62])
        (encodeRunes (List.replicate 250 0x61) ++ sgrReport 0 10 5 77 ++ [0x62]).length) [] []
      = oneShot T0 [3] (encodeRunes (List.replicate 250 0x61) ++ sgrReport 0 10 5 77 ++ [0x62]) :=
  (C15_mouse_straddle T0 [3] (by decide) (controlKeyed_of_B (by decide)) (by decide) true
    (List.replicate 250 0x61) (by intro c hc; rw [List.eq_of_mem_replicate hc]; decide) (by decide +kernel)
    0 10 5 77 (Or.inl rfl) [0x62] 6 (by decide) (by decide +kernel) (by decide +kernel) (by decide +kernel)).1

/-- non-vacuity of `C15_altrune_straddle`, cut BETWEEN the ESC and the character: 255 letters,
`ESC` | `C3 A9` (alt+`é`), then a letter -/
example :
    readAll T0 [3] true
      (readsOf bufSize (encodeRunes (List.replicate 255 0x61) ++ (0x1b :: encodeRune 0xe9) ++ [0x62])
        (encodeRunes (List.replicate 255 0x61) ++ (0x1b :: encodeRune 0xe9) ++ [0x62]).length) [] []
      = oneShot T0 [3] (encodeRunes (List.replicate 255 0x61) ++ (0x1b :: encodeRune 0xe9) ++ [0x62]) :=
  (C15_altrune_straddle T0 [3] (by decide) (controlKeyed_of_B (by decide)) (by decide) true
    (List.replicate 255 0x61) (by intro c hc; rw [List.eq_of_mem_replicate hc]; decide) (by decide +kernel)
    0xe9 (by decide) (by decide) (by decide) [0x62] 1 (by decide) (by decide) (by decide +kernel)
    (by decide +kernel)).1

/-- ... and cut INSIDE the character: 253 letters, `ESC F0 9F` | `98 80` (alt+`😀`), then a letter -/
example :
    readAll T0 [3] true
      (readsOf bufSize (encodeRunes (List.replicate 253 0x61) ++ (0x1b :: encodeRune 0x1f600) ++ [0x62])
        (encodeRunes (List.replicate 253 0x61) ++ (0x1b :: encodeRune 0x1f600) ++ [0x62]).length) [] []
      = oneShot T0 [3] (encodeRunes (List.replicate 253 0x61) ++ (0x1b :: encodeRune 0x1f600) ++ [0x62]) :=
  (C15_altrune_straddle T0 [3] (by decide) (controlKeyed_of_B (by decide)) (by decide) true
    (List.replicate 253 0x61) (by intro c hc; rw [List.eq_of_mem_replicate hc]; decide) (by decide +kernel)
    0x1f600 (by decide) (by decide) (by decide) [0x62] 3 (by decide) (by decide) (by decide +kernel)
    (by decide +kernel)).1

/-- the held-back beginnings, directly on the model: `ESC` alone, `ESC C3`, `ESC F0 9F 98` at the
end of a completely filled read are held back; `ESC C3 A9` alone there is held back whole, and
followed by one more byte it is alt+`é` of width 3 -/
example :
    (detectOneMsg T0 [3] [0x1b] true).toOption = some (0, none) ∧
    (detectOneMsg T0 [3] [0x1b, 0xc3] true).toOption = some (0, none) ∧
    (detectOneMsg T0 [3] [0x1b, 0xf0, 0x9f, 0x98] true).toOption = some (0, none) ∧
    (detectOneMsg T0 [3] [0x1b, 0xc3, 0xa9] true).toOption = some (0, none) ∧
    (detectOneMsg T0 [3] [0x1b, 0xc3, 0xa9, 0x62] true).toOption
      = some (3, some (.key { type := keyRunes, runes := [0xe9], alt := true })) ∧
    (detectOneMsg T0 [3] [0x1b, 0xc3, 0xa9] false).toOption
      = some (3, some (.key { type := keyRunes, runes := [0xe9], alt := true })) := by
  decide

end Tea.Props.C15
