import Tea.Gen.KeyTable
import Tea.Doc.KeyTable
import Tea.Props.C08
/-
Bridge theorems of C08: the key tables regenerated from /repo's working tree
(`Tea/Gen`, dumped from the built package) are the documented table
(`Tea/Doc`, frozen) and its documented closure, so every `doc` theorem of
Tea/Props/C08.lean is a theorem about the table the code uses now
(`current_decodes_like_documented`). Re-checked on every run; `lake` re-uses the
result as long as the generated file is unchanged.
-/
namespace Tea.Props.Bridge.C08
open Tea Tea.Input

/-- the base table of the code is the documented table, entry for entry -/
theorem keytable_is_documented : Tea.Gen.sequences = Tea.Doc.sequences := by decide +kernel

/-- the extended table is sorted by sequence (hence duplicate-free) -/
theorem ext_sorted : sortedKeysB Tea.Gen.extSequences = true := by decide +kernel

theorem ext_size : Tea.Gen.extSequences.length = (deriveExt Tea.Doc.sequences).length := by decide +kernel

/-- the lengths the decoder tries are all key lengths, longest first -/
theorem lengths_ok : Tea.Gen.seqLengths = descLengths Tea.Gen.extSequences := by decide +kernel

/-- every entry of the code's extended table is an entry of the documented closure ... -/
theorem ext_in_documented :
    ∀ e ∈ Tea.Gen.extSequences, (deriveExt Tea.Doc.sequences).lookup e.seq = some e.key := by
  decide +kernel

/-- ... and conversely -/
theorem documented_in_ext :
    ∀ e ∈ deriveExt Tea.Doc.sequences, Tea.Gen.extSequences.lookup e.seq = some e.key := by
  decide +kernel

/-- hence the current table decodes every buffer exactly like the documented one -/
theorem current_decodes_like_documented (b : Bytes) :
    detectOneMsg Tea.Gen.extSequences Tea.Gen.seqLengths b false =
    detectOneMsg (deriveExt Tea.Doc.sequences) Tea.Gen.seqLengths b false :=
  Tea.Props.C08.C08_transfer _ _ ext_in_documented documented_in_ext _ b

end Tea.Props.Bridge.C08
