import Tea.Proofs.InlineQ
/-
C14 — Printed lines appear once, in order, above the view.

"Lines printed with Println/Printf while the program runs inline appear exactly
once, in the order printed, directly above the view: the flush that follows
writes them starting at the row where the view began, wrapped at the terminal
width, then draws the whole view below them; nothing above that row is touched,
and later flushes neither repeat nor disturb them.  On the alt screen printed
lines are dropped."

Vocabulary (see also `Tea/Props/C06.lean`):
* `rowsOf w len`   — rows a printed line of `len` cells takes: `(len - 1) / w + 1` (1 for `len = 0`);
* `chunksOf w l`   — with `v = Ansi.visible l` the visible part of `l` (what a terminal shows of
  it: its bytes without the escape sequences; `lineWidth l = v.length` cells), the
  `rowsOf w (lineWidth l)` suffixes `v.drop (j*w)`; a row shows the first `w` bytes of its
  suffix (`padLine`), i.e. the `j`-th `w`-cell piece of the visible part of `l`, blank padded;
* `qrows w qs`     — `qs.flatMap (chunksOf w)`: the rows of all queued lines, in queue order;
  its elements are pieces of visible parts, so they contain no escape sequence and are their
  own visible part (`C14_qrows`): `padLine w p` IS what the row shows of such a piece `p`.
  A queued line is written with all its bytes (`.text l`, escape sequences included), not cut;
* `viewTop r t`, `InlineInv r t` — as in C06.

Only property theorems live here; helper lemmas are in `Tea/Proofs`.
-/
namespace Tea.Props.C14
open Tea Tea.VT Tea.Render

/-- the rows of printed lines: line `l` takes `rowsOf w (lineWidth l)` rows (cells, not bytes:
escape sequences take none), row `j` of them is the visible part of `l` from its byte `j*w` on;
such a piece contains no ESC byte, so it is its own visible part -/
theorem C14_qrows (w : Nat) (l : Line) (qs : List Line) :
    qrows w (l :: qs) = chunksOf w l ++ qrows w qs ∧ qrows w [] = [] ∧
    (chunksOf w l).length = rowsOf w (lineWidth l) ∧
    (∀ j, j < rowsOf w (lineWidth l) → (chunksOf w l)[j]? = some ((Ansi.visible l).drop (j * w))) ∧
    (∀ p ∈ qrows w (l :: qs), Ansi.visible p = p ∧ ∀ b ∈ p, b ≠ 0x1b) := by
  refine ⟨by simp [qrows], rfl, chunksOf_length w l, ?_, ?_⟩
  · intro j hj
    simp [chunksOf, hj]
  · intro p hp
    have hpl := qrows_plain w (l :: qs) p hp
    exact ⟨hpl.visible, hpl⟩

/-- printing while inline only queues the lines of the body (split at newlines), after the lines
already queued, and invalidates the render cache so that the next flush repaints; nothing is
written yet, and the inline invariant is kept.  On the alt screen the call is dropped. -/
theorem C14_printLine (r : RState) (t : Term) (body : Bytes) :
    (step r (.printLine body)).2 = [] ∧
    (r.altActive = true → (step r (.printLine body)).1 = r) ∧
    (r.altActive = false →
      (step r (.printLine body)).1.queued = r.queued ++ splitLines body ∧
      (step r (.printLine body)).1.lastRender = [] ∧
      (step r (.printLine body)).1.lastLines = none ∧
      (step r (.printLine body)).1.buf = r.buf ∧
      (InlineInv r t → InlineInv (step r (.printLine body)).1 t ∧
        viewTop (step r (.printLine body)).1 t = viewTop r t)) := by
  cases ha : r.altActive with
  | true => simp [step, ha]
  | false =>
    have hst : step r (.printLine body) =
        (({ r with queued := r.queued ++ splitLines body } : RState).repaint, []) := by
      simp [step, ha]
    rw [hst]
    refine ⟨rfl, ?_, ?_⟩
    · intro h; cases h
    intro _
    refine ⟨rfl, rfl, rfl, rfl, ?_⟩
    intro hinv
    exact ⟨⟨hinv.alt, hinv.onAlt, hinv.width, hinv.height, hinv.wpos, hinv.hpos, hinv.col,
      hinv.inside, hinv.below, (fun _ h => by simp [RState.repaint] at h),
      (fun h => by simp [RState.repaint] at h)⟩, rfl⟩

/-- **The flush that prints.**  `InlineInv r t`, any queue, and a view that differs from
`lastRender` (always the case after a `printLine`, which clears `lastRender`): after `write s;
flush`, with `R0 = viewTop r t` the row where the view used to start and `Q` the number of rows
of the queued lines,
* every row above `R0` is untouched;
* rows `R0 .. R0+Q-1` show exactly `qrows w r.queued`: (the visible part of) each queued line
  once, in queue order, wrapped at the width, blank padded;
* the queue is empty afterwards (a later flush cannot print them again) and the invariant holds
  with the view starting directly below, at `R0 + Q`: view row `i` is (the visible part of)
  frame line `i` cut and padded, the cursor is at the start of the last view row, window rows below it are blank;
* the window scrolled by exactly what was needed. -/
theorem C14_flush (r : RState) (t : Term) (hinv : InlineInv r t) (s : Bytes)
    (hne : (write r s).buf ≠ r.lastRender)
    (r' : RState) (t' : Term) (hr' : r' = (flush (write r s)).1)
    (ht' : t' = applyOps t (flush (write r s)).2) :
    InlineInv r' t' ∧ r'.queued = [] ∧ t'.alt = t.alt ∧ t'.w = t.w ∧ t'.h = t.h ∧
    (∀ ρ, ρ < viewTop r t → ∀ c, t'.main.cells ρ c = t.main.cells ρ c) ∧
    (∀ j l, (qrows t.w r.queued)[j]? = some l → t'.main.row t.w (viewTop r t + j) = padLine t.w l) ∧
    viewTop r' t' = viewTop r t + (qrows t.w r.queued).length ∧
    t'.main.cr + 1 = viewTop r' t' + (frameLines (write r s)).length ∧
    t'.main.cc = 0 ∧ t'.main.pw = false ∧
    (∀ i l, (frameLines (write r s))[i]? = some l →
      t'.main.row t.w (viewTop r' t' + i) = padLine t.w (Ansi.visible l)) ∧
    (∀ ρ, t'.main.cr < ρ → ρ < t'.main.top + t.h → t'.main.row t.w ρ = List.replicate t.w 32) ∧
    t'.main.top = max t.main.top
      (viewTop r t + (qrows t.w r.queued).length + (frameLines (write r s)).length - t.h) := by
  have hne' : ((write r s).buf.isEmpty || (write r s).buf == (write r s).lastRender) = false := by
    have h1 : (write r s).buf.isEmpty = false := by
      cases hb : (write r s).buf with
      | nil => exact absurd hb (write_buf_ne r s)
      | cons _ _ => rfl
    have h2 : ((write r s).buf == (write r s).lastRender) = false := by
      rw [beq_eq_false_iff_ne]; exact hne
    rw [h1, h2]; rfl
  obtain ⟨a1, a2, a3, a4, a5, a6, a7, a8, aq, a9, a10⟩ :=
    inline_flushQ_inv (write r s) t (hinv.write s) hne'
  subst hr' ht'
  obtain ⟨_, b2, b3⟩ := a1.screen a9
  rw [a6] at b2
  rw [a6, a7] at b3
  have hvt : viewTop (write r s) t = viewTop r t := rfl
  have hq : (write r s).queued = r.queued := rfl
  rw [hvt, hq] at a3 a4 aq
  rw [hvt] at a8
  refine ⟨a1, a2, a5, a6, a7, a8, ?_, a3, ?_, a1.col.1, a1.col.2, b2, b3, a4⟩
  · intro j l hj
    exact (rowShows_iff_row _ _ _ _).1 (aq j l hj)
  · have h1 := a1.inside.1
    rw [a10] at h1
    have hn1 : 1 ≤ (frameLines (write r s)).length := by
      rw [frameLines_eq]; exact frameOf_length_pos _ _
    have : viewTop (flush (write r s)).1 (applyOps t (flush (write r s)).2) =
        (applyOps t (flush (write r s)).2).main.cr + 1 - max (frameLines (write r s)).length 1 := by
      unfold viewTop; rw [a10]
    omega

/-- **Print, then render.**  From `InlineInv r t` with an empty queue: `printLine body`, then
`write s; flush` puts the lines of `body` (split at newlines, wrapped at the width) into the rows
starting where the view used to start, each once and in order, the view directly below; rows
above are untouched and the queue is empty again. -/
theorem C14_print_then_flush (r : RState) (t : Term) (hinv : InlineInv r t) (hq : r.queued = [])
    (body s : Bytes) (r1 r' : RState) (t' : Term) (hr1 : r1 = (step r (.printLine body)).1)
    (hr' : r' = (flush (write r1 s)).1) (ht' : t' = applyOps t (flush (write r1 s)).2) :
    InlineInv r' t' ∧ r'.queued = [] ∧
    (∀ ρ, ρ < viewTop r t → ∀ c, t'.main.cells ρ c = t.main.cells ρ c) ∧
    (∀ j l, (qrows t.w (splitLines body))[j]? = some l →
      t'.main.row t.w (viewTop r t + j) = padLine t.w l) ∧
    viewTop r' t' = viewTop r t + (qrows t.w (splitLines body)).length ∧
    (∀ i l, (frameLines (write r1 s))[i]? = some l →
      t'.main.row t.w (viewTop r' t' + i) = padLine t.w (Ansi.visible l)) := by
  obtain ⟨_, _, p3⟩ := C14_printLine r t body
  obtain ⟨p4, p5, _, _, p8⟩ := p3 hinv.alt
  obtain ⟨p9, p10⟩ := p8 hinv
  rw [← hr1] at p4 p5 p9 p10
  rw [hq, List.nil_append] at p4
  obtain ⟨c1, c2, _, _, _, c6, c7, c8, _, _, _, c12, _, _⟩ := C14_flush r1 t p9 s
    (by rw [p5]; exact write_buf_ne r1 s) r' t' hr' ht'
  rw [p10] at c6 c7 c8
  rw [p4] at c7 c8
  exact ⟨c1, c2, c6, c7, c8, c12⟩

/-! ### concrete run (non-vacuity): W = 10, H = 5, cursor on window row 1, old output on row 0 -/

def ri : RState := { width := 10, height := 5 }
def ti : Term := { w := 10, h := 5, main := { cells := fun r _ => if r = 0 then 120 else 32, cr := 1 } }

def mainRows (t : Term) (lo k : Nat) : List Bytes :=
  (List.range k).map (fun i => t.main.row t.w (lo + i))

/-- run renderer steps, feeding the terminal -/
def runOn (r : RState) (t : Term) : List ROp → RState × Term
  | [] => (r, t)
  | o :: os => runOn (step r o).1 (applyOps t (step r o).2) os

example : qrows 10 [[104,101,108,108,111,32,119,111,114,108,100,33,33], []] =
    [[104,101,108,108,111,32,119,111,114,108,100,33,33], [100,33,33], []] := by decide

set_option maxRecDepth 100000 in
/-- view "v1\nv2"; print "hello world!!" (13 bytes: two rows) and "" (one blank row); view
"v1\nV2": rows 1..3 hold the printed lines, the view is on rows 4..5 (the window scrolled by 1),
row 0 is untouched, the queue is empty; a further flush of "v1\nV3" leaves the printed rows alone -/
example :
    let p := runOn ri ti [.write [118,49,10,118,50], .flush,
      .printLine [104,101,108,108,111,32,119,111,114,108,100,33,33], .printLine [],
      .write [118,49,10,86,50], .flush, .write [118,49,10,86,51], .flush]
    mainRows p.2 0 6 =
      [List.replicate 10 120,
       [104,101,108,108,111,32,119,111,114,108], [100,33,33,32,32,32,32,32,32,32],
       List.replicate 10 32,
       [118,49,32,32,32,32,32,32,32,32], [86,51,32,32,32,32,32,32,32,32]] ∧
    p.1.queued = [] ∧ p.2.main.top = 1 ∧ p.2.main.cr = 5 ∧ p.2.main.cc = 0 := by decide

/-- a styled printed line ("\x1b[1mhello world!!\x1b[0m": 21 bytes, 13 cells) takes two rows,
like the plain one: the rows are pieces of its visible part -/
example : qrows 10 [[27,91,49,109,104,101,108,108,111,32,119,111,114,108,100,33,33,27,91,48,109]] =
    [[104,101,108,108,111,32,119,111,114,108,100,33,33], [100,33,33]] := by decide

set_option maxRecDepth 100000 in
/-- ... it is written whole (all 21 bytes, then EL0 because 13 is not a multiple of 10), wraps
after the 10th CELL, and the view follows directly below its two rows -/
example :
    let p := runOn ri ti [.write [118,49], .flush,
      .printLine [27,91,49,109,104,101,108,108,111,32,119,111,114,108,100,33,33,27,91,48,109],
      .write [118,50], .flush]
    mainRows p.2 0 4 =
      [List.replicate 10 120,
       [104,101,108,108,111,32,119,111,114,108], [100,33,33,32,32,32,32,32,32,32],
       [118,50,32,32,32,32,32,32,32,32]] ∧
    p.1.queued = [] ∧ p.2.main.top = 0 ∧ p.2.main.cr = 3 ∧ p.2.main.cc = 0 ∧
    (flush (write (step (flush (write ri [118,49])).1
        (.printLine [27,91,49,109,104,101,108,108,111,32,119,111,114,108,100,33,33,27,91,48,109])).1
      [118,50])).2 =
      [.text [27,91,49,109,104,101,108,108,111,32,119,111,114,108,100,33,33,27,91,48,109], .el0,
       .cr, .lf, .cr, .text [118,50], .el0, .cub 10] := by decide

end Tea.Props.C14
