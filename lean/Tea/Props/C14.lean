import Tea.Proofs.InlineQ
import Tea.Proofs.InlineHistory
import Tea.Proofs.InlineClear
import Tea.Proofs.AltRoundtrip
import Tea.Proofs.AltQueue
import Tea.Props.C06
/-
C14 — Printed lines appear once, in order, above the view.

"Lines printed with Println/Printf while the program runs inline appear exactly
once, in the order printed, directly above the view: the flush that follows
writes them starting at the row where the view began, wrapped at the terminal
width, then draws the whole view below them; nothing above that row is touched,
and later flushes neither repeat nor disturb them.  On the alt screen printed
lines are dropped."

Whole histories (`C14_history`, `C14_history_stable`, `C14_pending`): "Every line printed with
Println or Printf while the alt screen is not active appears exactly once, in print order,
directly above the live view, is never overwritten, erased or reordered by later renders, and
scrolls into the terminal's history like ordinary output - and whatever was on the terminal above
the program before it started stays intact."  (A ClearScreen erases the window, printed lines
that are still in it included; the lines still queued are then printed from the top row of the
window on: `C14_flush_after_clear`.)

Vocabulary (see also `Tea/Props/C06.lean`):
* `rowsOf w len`   — rows a printed line of `len` cells takes: `(len - 1) / w + 1` (1 for `len = 0`);
* `chunksOf w l`   — with `v = Ansi.visible l` the visible part of `l` (what a terminal shows of
  it: its bytes without the escape sequences; `lineWidth l = v.length` cells), the
  `rowsOf w (lineWidth l)` suffixes `v.drop (j*w)`; a row shows the first `w` bytes of its
  suffix (`padLine`), i.e. the `j`-th `w`-cell piece of the visible part of `l`, blank padded;
* `qrows w qs`     — `qs.flatMap (chunksOf w)`: the rows of all queued lines, in queue order;
  its elements are pieces of visible parts, so they contain no escape sequence and are their
  own visible part (`C14_qrows`): `padLine w p` IS what the row shows of such a piece `p`.
  A queued line is written with all its bytes (`.text l`, escape sequences included), not cut;
* `viewTop r t`, `InlineInv r t` — as in C06.
* histories (`Tea/Proofs/InlineHistory.lean`): `J r` — the queue invariant `r.queued ≠ [] →
  r.lastRender = []` of a run; `inlineStable` — every step but a resize, EnterAltScreen, ClearScreen,
  `stop`, `kill`; `flushPrints r` — a flush in state `r` prints the queue (a pending view, a non-empty
  queue, inline);
  `printedLines r ops` / `printedRows w r ops` — the LOG of a history: the queue (its rows
  `qrows w queue`) at the moment of every printing flush, concatenated in history order;
  `pendingLines r ops` — the lines of the `printLine` steps after the last printing flush (after
  what was queued at the start, if no flush prints); `printLinesOf ops` — every line of every
  `printLine` step, in order.
* the alt screen (`Tea/Proofs/EnterAlt.lean`, `Tea/Proofs/AltQueue.lean`): `preAlt r` — the render
  with which `enterAlt` brings the main screen up to date before it switches: `flush r` when lines
  are queued, nothing otherwise; `AltQ r` — `r.queued ≠ [] → r.altActive = false ∧ r.lastRender = []`
  (`J r` and "nothing is queued on the alt screen"); `EntersWithView r ops` — along `ops` from `r`,
  every `enterAlt` issued on the main screen while lines are queued finds a pending view
  (`buf ≠ []`); `viewAfterPrint ops` — every `printLine` is directly followed by a `write` or ends
  the history (the event loop writes the view after every message).

Only property theorems live here; helper lemmas are in `Tea/Proofs`.
-/
namespace Tea.Props.C14
open Tea Tea.VT Tea.Render

/-- the rows of printed lines: line `l` takes `rowsOf w (lineWidth l)` rows (cells, not bytes:
escape sequences take none), row `j` of them is the visible part of `l` from its byte `j*w` on;
such a piece contains no ESC byte, so it is its own visible part -/
theorem C14_qrows (w : Nat) (l : Line) (qs : List Line) :
    qrows w (l :: qs) = chunksOf w l ++ qrows w qs ∧ qrows w [] = [] ∧
    (chunksOf w l).length = rowsOf w (lineWidth l) ∧
    (∀ j, j < rowsOf w (lineWidth l) → (chunksOf w l)[j]? = some ((Ansi.visible l).drop (j * w))) ∧
    (∀ p ∈ qrows w (l :: qs), Ansi.visible p = p ∧ ∀ b ∈ p, b ≠ 0x1b) := by
  refine ⟨by simp [qrows], rfl, chunksOf_length w l, ?_, ?_⟩
  · intro j hj
    simp [chunksOf, hj]
  · intro p hp
    have hpl := qrows_plain w (l :: qs) p hp
    exact ⟨hpl.visible, hpl⟩

/-- printing while inline only queues the lines of the body (split at newlines), after the lines
already queued, and invalidates the render cache so that the next flush repaints; nothing is
written yet, and the inline invariant is kept.  On the alt screen the call is dropped. -/
theorem C14_printLine (r : RState) (t : Term) (body : Bytes) :
    (step r (.printLine body)).2 = [] ∧
    (r.altActive = true → (step r (.printLine body)).1 = r) ∧
    (r.altActive = false →
      (step r (.printLine body)).1.queued = r.queued ++ splitLines body ∧
      (step r (.printLine body)).1.lastRender = [] ∧
      (step r (.printLine body)).1.lastLines = none ∧
      (step r (.printLine body)).1.buf = r.buf ∧
      (InlineInv r t → InlineInv (step r (.printLine body)).1 t ∧
        viewTop (step r (.printLine body)).1 t = viewTop r t)) := by
  cases ha : r.altActive with
  | true => simp [step, ha]
  | false =>
    have hst : step r (.printLine body) =
        (({ r with queued := r.queued ++ splitLines body } : RState).repaint, []) := by
      simp [step, ha]
    rw [hst]
    refine ⟨rfl, ?_, ?_⟩
    · intro h; cases h
    intro _
    refine ⟨rfl, rfl, rfl, rfl, ?_⟩
    intro hinv
    exact ⟨⟨hinv.alt, hinv.onAlt, hinv.width, hinv.height, hinv.wpos, hinv.hpos, hinv.col,
      hinv.inside, hinv.below, (fun _ h => by simp [RState.repaint] at h),
      (fun h => by simp [RState.repaint] at h)⟩, rfl⟩

/-- **The flush that prints.**  `InlineInv r t`, any queue, and a view that differs from
`lastRender` (always the case after a `printLine`, which clears `lastRender`): after `write s;
flush`, with `R0 = viewTop r t` the row where the view used to start and `Q` the number of rows
of the queued lines,
* every row above `R0` is untouched;
* rows `R0 .. R0+Q-1` show exactly `qrows w r.queued`: (the visible part of) each queued line
  once, in queue order, wrapped at the width, blank padded;
* the queue is empty afterwards (a later flush cannot print them again) and the invariant holds
  with the view starting directly below, at `R0 + Q`: view row `i` is (the visible part of)
  frame line `i` cut and padded, the cursor is at the start of the last view row, window rows below it are blank;
* the window scrolled by exactly what was needed. -/
theorem C14_flush (r : RState) (t : Term) (hinv : InlineInv r t) (s : Bytes)
    (hne : (write r s).buf ≠ r.lastRender)
    (r' : RState) (t' : Term) (hr' : r' = (flush (write r s)).1)
    (ht' : t' = applyOps t (flush (write r s)).2) :
    InlineInv r' t' ∧ r'.queued = [] ∧ t'.alt = t.alt ∧ t'.w = t.w ∧ t'.h = t.h ∧
    (∀ ρ, ρ < viewTop r t → ∀ c, t'.main.cells ρ c = t.main.cells ρ c) ∧
    (∀ j l, (qrows t.w r.queued)[j]? = some l → t'.main.row t.w (viewTop r t + j) = padLine t.w l) ∧
    viewTop r' t' = viewTop r t + (qrows t.w r.queued).length ∧
    t'.main.cr + 1 = viewTop r' t' + (frameLines (write r s)).length ∧
    t'.main.cc = 0 ∧ t'.main.pw = false ∧
    (∀ i l, (frameLines (write r s))[i]? = some l →
      t'.main.row t.w (viewTop r' t' + i) = padLine t.w (Ansi.visible l)) ∧
    (∀ ρ, t'.main.cr < ρ → ρ < t'.main.top + t.h → t'.main.row t.w ρ = List.replicate t.w 32) ∧
    t'.main.top = max t.main.top
      (viewTop r t + (qrows t.w r.queued).length + (frameLines (write r s)).length - t.h) := by
  have hne' : ((write r s).buf.isEmpty || (write r s).buf == (write r s).lastRender) = false := by
    have h1 : (write r s).buf.isEmpty = false := by
      cases hb : (write r s).buf with
      | nil => exact absurd hb (write_buf_ne r s)
      | cons _ _ => rfl
    have h2 : ((write r s).buf == (write r s).lastRender) = false := by
      rw [beq_eq_false_iff_ne]; exact hne
    rw [h1, h2]; rfl
  obtain ⟨a1, a2, a3, a4, a5, a6, a7, a8, aq, a9, a10⟩ :=
    inline_flushQ_inv (write r s) t (hinv.write s) hne'
  subst hr' ht'
  obtain ⟨_, b2, b3⟩ := a1.screen a9
  rw [a6] at b2
  rw [a6, a7] at b3
  have hvt : viewTop (write r s) t = viewTop r t := rfl
  have hq : (write r s).queued = r.queued := rfl
  rw [hvt, hq] at a3 a4 aq
  rw [hvt] at a8
  refine ⟨a1, a2, a5, a6, a7, a8, ?_, a3, ?_, a1.col.1, a1.col.2, b2, b3, a4⟩
  · intro j l hj
    exact (rowShows_iff_row _ _ _ _).1 (aq j l hj)
  · have h1 := a1.inside.1
    rw [a10] at h1
    have hn1 : 1 ≤ (frameLines (write r s)).length := by
      rw [frameLines_eq]; exact frameOf_length_pos _ _
    have : viewTop (flush (write r s)).1 (applyOps t (flush (write r s)).2) =
        (applyOps t (flush (write r s)).2).main.cr + 1 - max (frameLines (write r s)).length 1 := by
      unfold viewTop; rw [a10]
    omega

/-- **Print, then render.**  From `InlineInv r t` with an empty queue: `printLine body`, then
`write s; flush` puts the lines of `body` (split at newlines, wrapped at the width) into the rows
starting where the view used to start, each once and in order, the view directly below; rows
above are untouched and the queue is empty again. -/
theorem C14_print_then_flush (r : RState) (t : Term) (hinv : InlineInv r t) (hq : r.queued = [])
    (body s : Bytes) (r1 r' : RState) (t' : Term) (hr1 : r1 = (step r (.printLine body)).1)
    (hr' : r' = (flush (write r1 s)).1) (ht' : t' = applyOps t (flush (write r1 s)).2) :
    InlineInv r' t' ∧ r'.queued = [] ∧
    (∀ ρ, ρ < viewTop r t → ∀ c, t'.main.cells ρ c = t.main.cells ρ c) ∧
    (∀ j l, (qrows t.w (splitLines body))[j]? = some l →
      t'.main.row t.w (viewTop r t + j) = padLine t.w l) ∧
    viewTop r' t' = viewTop r t + (qrows t.w (splitLines body)).length ∧
    (∀ i l, (frameLines (write r1 s))[i]? = some l →
      t'.main.row t.w (viewTop r' t' + i) = padLine t.w (Ansi.visible l)) := by
  obtain ⟨_, _, p3⟩ := C14_printLine r t body
  obtain ⟨p4, p5, _, _, p8⟩ := p3 hinv.alt
  obtain ⟨p9, p10⟩ := p8 hinv
  rw [← hr1] at p4 p5 p9 p10
  rw [hq, List.nil_append] at p4
  obtain ⟨c1, c2, _, _, _, c6, c7, c8, _, _, _, c12, _, _⟩ := C14_flush r1 t p9 s
    (by rw [p5]; exact write_buf_ne r1 s) r' t' hr' ht'
  rw [p10] at c6 c7 c8
  rw [p4] at c7 c8
  exact ⟨c1, c2, c6, c7, c8, c12⟩

/-- **Every printed line of a whole inline history.**  From `InlineInv r t ∧ J r`, along any
`inlineStable` history `ops` (views, flushes — painting, skipping, printing, no-ops —, repaints,
modes, printed lines, in any order), the terminal receiving exactly what the steps write; with
`R0 = viewTop r t` the row where the view started, `(r', t')` renderer and terminal after the
history, `P = printedRows t.w r ops` the log of the rows printed:
* (a) whatever was above the program stays intact: every row above `R0` is untouched — rows of
  the unbounded tape, so this includes everything that scrolled out of the window;
* (b) the printed lines appear once, in print order: tape row `R0 + j` shows `P[j]` (cut at the
  width — the pieces are at most that long — and blank padded), for every `j`: nothing printed was
  overwritten, erased or reordered by the later flushes of the history, also when it has scrolled
  out of the window (the window only moves down: `t.main.top ≤ t'.main.top`);
* (c) the live view is directly below them: it starts at row `R0 + P.length`;
* (d) nothing is lost or duplicated: the queue at the end is `pendingLines r ops`, and what was
  queued at the start followed by every line of every `printLine` step, in order, is the lines
  written by the printing flushes (`printedLines`, whose rows are `P`) followed by the pending
  ones: every printed line is in exactly one of the two, once, in print order;
* the invariants hold again and the size is unchanged. -/
theorem C14_history (r : RState) (t : Term) (hinv : InlineInv r t) (hJ : J r) (ops : List ROp)
    (hs : ∀ o ∈ ops, inlineStable o = true)
    (r' : RState) (t' : Term) (hr' : r' = (run r ops).1)
    (ht' : t' = (run r ops).2.foldl applyOps t) :
    InlineInv r' t' ∧ J r' ∧ t'.w = t.w ∧ t'.h = t.h ∧
    (∀ ρ, ρ < viewTop r t → ∀ c, t'.main.cells ρ c = t.main.cells ρ c) ∧
    (∀ j l, (printedRows t.w r ops)[j]? = some l →
      t'.main.row t.w (viewTop r t + j) = padLine t.w l) ∧
    viewTop r' t' = viewTop r t + (printedRows t.w r ops).length ∧
    t.main.top ≤ t'.main.top ∧
    r'.queued = pendingLines r ops ∧
    r.queued ++ printLinesOf ops = printedLines r ops ++ pendingLines r ops ∧
    printedRows t.w r ops = qrows t.w (printedLines r ops) := by
  obtain ⟨a1, a2, tr⟩ := inline_run_trace ops r t hinv hJ hs
  obtain ⟨q1, _, q3⟩ := queue_run ops r hJ hinv.alt hs
  subst hr' ht'
  refine ⟨a1, a2, tr.w, tr.h, tr.above, ?_, tr.vt, tr.top, q1, q3, printedRows_eq _ _ _⟩
  intro j l hj
  exact (rowShows_iff_row _ _ _ _).1 (tr.rows j l hj)

/-- **Later renders never disturb what was printed.**  A history `ops1` followed by any further
history `ops2`: the log of the whole is the log of `ops1` followed by the log of `ops2` (run from
the state `ops1` leaves), so the rows printed during `ops1` are still where they were, showing
what they showed, after `ops2` — whatever it renders or prints. -/
theorem C14_history_stable (r : RState) (t : Term) (hinv : InlineInv r t) (hJ : J r)
    (ops1 ops2 : List ROp) (hs1 : ∀ o ∈ ops1, inlineStable o = true)
    (hs2 : ∀ o ∈ ops2, inlineStable o = true)
    (t' : Term) (ht' : t' = (run r (ops1 ++ ops2)).2.foldl applyOps t) :
    printedRows t.w r (ops1 ++ ops2) =
      printedRows t.w r ops1 ++ printedRows t.w (run r ops1).1 ops2 ∧
    (∀ j l, (printedRows t.w r ops1)[j]? = some l →
      t'.main.row t.w (viewTop r t + j) = padLine t.w l) := by
  have happ := printedRows_append t.w ops1 ops2 r
  refine ⟨happ, ?_⟩
  obtain ⟨_, _, _, _, _, b, _⟩ := C14_history r t hinv hJ (ops1 ++ ops2)
    (fun o ho => by
      rcases List.mem_append.1 ho with h | h
      · exact hs1 o h
      · exact hs2 o h) _ t' rfl ht'
  intro j l hj
  apply b j l
  rw [happ]
  have hjl : j < (printedRows t.w r ops1).length := by
    apply Classical.byContradiction
    intro hn
    rw [List.getElem?_eq_none (by omega)] at hj
    cases hj
  rw [List.getElem?_append_left hjl]
  exact hj

/-- **What is pending** (`pendingLines` made explicit).  For an inline renderer with `J`: if no
flush of an `inlineStable` history prints, everything is still pending — what was queued at the
start, then every line of every `printLine` step, in order; and if the history is `a`, then a flush
that prints, then a stretch `b` in which no flush prints, the pending lines are exactly the lines
of the `printLine` steps of `b`, in order: the lines printed after the last printing flush. -/
theorem C14_pending (r : RState) (hJ : J r) (halt : r.altActive = false) :
    (∀ ops, (∀ o ∈ ops, inlineStable o = true) → printedLines r ops = [] →
      pendingLines r ops = r.queued ++ printLinesOf ops) ∧
    (∀ a b, (∀ o ∈ a ++ .flush :: b, inlineStable o = true) → flushPrints (run r a).1 = true →
      printedLines (flush (run r a).1).1 b = [] →
      pendingLines r (a ++ .flush :: b) = printLinesOf b) :=
  ⟨fun ops hs hp => pendingLines_noprint ops r hJ halt hs hp,
   fun a b hs hfp hb => pendingLines_last_flush a b r hJ halt hs hfp hb⟩

/-- **The flush that prints, after a ClearScreen.**  `ClearedInv r t` (the state between a
ClearScreen while inline and the next painting flush: blank window, cursor at its top left, caches
invalid — `Tea/Proofs/InlineClear.lean`), any queue: after `write s; flush` the queued lines are in
the rows starting at the TOP ROW of the window, once and in queue order, wrapped at the width; the
view is directly below them; rows above the window are untouched; the queue is empty, the inline
invariant holds again, the window scrolled by exactly what was needed. -/
theorem C14_flush_after_clear (r : RState) (t : Term) (hinv : ClearedInv r t) (s : Bytes)
    (r' : RState) (t' : Term) (hr' : r' = (flush (write r s)).1)
    (ht' : t' = applyOps t (flush (write r s)).2) :
    InlineInv r' t' ∧ r'.queued = [] ∧ t'.alt = t.alt ∧ t'.w = t.w ∧ t'.h = t.h ∧
    (∀ ρ, ρ < t.main.top → ∀ c, t'.main.cells ρ c = t.main.cells ρ c) ∧
    (∀ j l, (qrows t.w r.queued)[j]? = some l → t'.main.row t.w (t.main.top + j) = padLine t.w l) ∧
    viewTop r' t' = t.main.top + (qrows t.w r.queued).length ∧
    t'.main.cr + 1 = viewTop r' t' + (frameLines (write r s)).length ∧
    t'.main.cc = 0 ∧ t'.main.pw = false ∧
    (∀ i l, (frameLines (write r s))[i]? = some l →
      t'.main.row t.w (viewTop r' t' + i) = padLine t.w (Ansi.visible l)) ∧
    (∀ ρ, t'.main.cr < ρ → ρ < t'.main.top + t.h → t'.main.row t.w ρ = List.replicate t.w 32) ∧
    t'.main.top = max t.main.top
      (t.main.top + (qrows t.w r.queued).length + (frameLines (write r s)).length - t.h) := by
  obtain ⟨a1, a2, a3, a4, a5, a6, a7, a8, aq, a9, a10⟩ :=
    cleared_flush_inv (write r s) t (hinv.congr rfl rfl rfl rfl rfl rfl rfl rfl rfl)
      (write_buf_ne r s)
  subst hr' ht'
  obtain ⟨_, b2, b3⟩ := a1.screen a9
  rw [a6] at b2
  rw [a6, a7] at b3
  have hq : (write r s).queued = r.queued := rfl
  rw [hq] at a3 a4 aq
  refine ⟨a1, a2, a5, a6, a7, a8, ?_, a3, ?_, a1.col.1, a1.col.2, b2, b3, a4⟩
  · intro j l hj
    exact (rowShows_iff_row _ _ _ _).1 (aq j l hj)
  · have h1 := a1.inside.1
    rw [a10] at h1
    have hn1 : 1 ≤ (frameLines (write r s)).length := by
      rw [frameLines_eq]; exact frameOf_length_pos _ _
    have : viewTop (flush (write r s)).1 (applyOps t (flush (write r s)).2) =
        (applyOps t (flush (write r s)).2).main.cr + 1 - max (frameLines (write r s)).length 1 := by
      unfold viewTop; rw [a10]
    omega

/-! ### printed lines and the alt screen -/

/-- **Print, then EnterAltScreen.**  From the inline invariant with a pending view (`r.buf ≠ []`,
the event loop writes the view after every message) and any queue: `printLine body` (the lines of
`body` are queued after the ones already queued, the cache is invalidated: `rp`), then `enterAlt`.
With `R0 = viewTop r t` the row where the view started, `Q` the rows of the queued lines (those
queued before, then those of `body`, wrapped at the width) and `V = frameLines rp` the frame of the
pending view:
* (a) the queue of the state after `enterAlt` is EMPTY: nothing is carried into the alt screen;
* (b) what `enterAlt` writes is what `flush` writes in the state after the print — one ordinary
  render, on the main screen — followed by the four switching operations (DECSET 1049, ED2, HOME,
  the cursor mode);
* (c) on the terminal (`t1`): the alt screen is active, blank, its cursor at home, and `AltInv`
  holds; on the MAIN screen every row above `R0` is untouched, rows `R0 .. R0+|Q|-1` show `Q` —
  every printed line once, in print order, wrapped, blank padded — and the view is directly below
  them (the flush part is `C14_flush`);
* (d) after ANY further `altStable` history on the alt screen and `exitAlt` (`C06_alt_roundtrip`: a
  visit to the alt screen leaves the main screen as it was): back on the main screen, the same
  rows still show `Q` and the view below them, rows above `R0` are untouched, nothing is queued,
  and the inline invariant holds with the view starting at `R0 + |Q|`.

(Before the repair `enterAlt` wrote only the four switching operations and kept the queue: a
program that printed, switched to the alt screen and ended there lost the lines — see the
contrast run below.) -/
theorem C14_print_then_alt (r : RState) (t : Term) (hinv : InlineInv r t) (hbuf : r.buf ≠ [])
    (body : Bytes) (ops : List ROp) (hs : ∀ o ∈ ops, altStable o = true) :
    let rp := (step r (.printLine body)).1
    let R0 := viewTop r t
    let Q := qrows t.w (r.queued ++ splitLines body)
    let V := frameLines rp
    let r1 := (enterAlt rp).1
    let t1 := applyOps t (enterAlt rp).2
    let r2 := (run r1 ops).1
    let t2 := (run r1 ops).2.foldl applyOps t1
    let r3 := (exitAlt r2).1
    let t3 := applyOps t2 (exitAlt r2).2
    let mainShows : Term → Prop := fun t' =>
      (∀ ρ, ρ < R0 → ∀ c, t'.main.cells ρ c = t.main.cells ρ c) ∧
      (∀ j l, Q[j]? = some l → t'.main.row t.w (R0 + j) = padLine t.w l) ∧
      (∀ i l, V[i]? = some l → t'.main.row t.w (R0 + Q.length + i) = padLine t.w (Ansi.visible l))
    (rp.queued = r.queued ++ splitLines body ∧ rp.queued ≠ [] ∧ rp.lastRender = [] ∧
      rp.buf = r.buf ∧ Q = qrows t.w r.queued ++ qrows t.w (splitLines body)) ∧
    r1.queued = [] ∧
    (enterAlt rp).2 = (flush rp).2 ++ [.decset 1049, .ed2, .home, cursorOp r.cursorHidden] ∧
    (t1.onAlt = true ∧ AltInv r1 t1 ∧ (∀ ρ c, t1.alt.cells ρ c = 32) ∧
      t1.alt.cr = t1.alt.top ∧ t1.alt.cc = 0 ∧ t1.alt.pw = false ∧ t1.w = t.w ∧ t1.h = t.h) ∧
    mainShows t1 ∧
    (InlineInv r3 t3 ∧ r3.queued = [] ∧ t3.onAlt = false ∧ t3.w = t.w ∧ t3.h = t.h ∧
      viewTop r3 t3 = R0 + Q.length) ∧
    mainShows t3 := by
  intro rp R0 Q V r1 t1 r2 t2 r3 t3 mainShows
  have hst : rp = ({ r with queued := r.queued ++ splitLines body } : RState).repaint := by
    show (step r (.printLine body)).1 = _
    simp [step, hinv.alt]
  obtain ⟨_, _, p3⟩ := C14_printLine r t body
  obtain ⟨p4, p5, _, p7, p8⟩ := p3 hinv.alt
  obtain ⟨p9, p10⟩ := p8 hinv
  have ha : rp.altActive = false := p9.alt
  have hch : rp.cursorHidden = r.cursorHidden := by rw [hst]; rfl
  have hq' : rp.queued ≠ [] := by
    show (step r (.printLine body)).1.queued ≠ []
    rw [p4]
    intro h
    have := splitLines_length_pos body
    rw [(List.append_eq_nil_iff.1 h).2] at this
    simp at this
  have hpb : rp.buf ≠ [] := by
    show (step r (.printLine body)).1.buf ≠ []
    rw [p7]; exact hbuf
  have hpre : preAlt rp = flush rp := preAlt_q rp hq'
  have hws : write rp rp.buf = rp := write_self rp hpb
  -- the flush part: `C14_flush` for the state after the print and its own pending view
  have c := C14_flush rp t p9 rp.buf (by rw [hws]; show rp.buf ≠ (step r (.printLine body)).1.lastRender
                                         rw [p5]; exact hpb) _ _ rfl rfl
  rw [hws] at c
  obtain ⟨c1, c2, c3, c4, c5, c6, c7, c8, _, _, _, c12, _, _⟩ := c
  have hvt : viewTop rp t = R0 := p10
  have hqq : qrows t.w rp.queued = Q := by
    show qrows t.w (step r (.printLine body)).1.queued = _
    rw [p4]
  rw [hvt] at c6 c7 c8
  rw [hqq] at c7 c8
  rw [c8] at c12
  -- the terminal after `enterAlt`: the flush, then the switch
  have hops : (enterAlt rp).2 = (flush rp).2 ++ switchOps r.cursorHidden := by
    rw [enterAlt_ops rp ha, hpre, hch]
  have ht1 : t1 = applyOps (applyOps t (flush rp).2) (switchOps r.cursorHidden) := by
    show applyOps t (enterAlt rp).2 = _
    rw [hops, applyOps_append]
  obtain ⟨s1, s2, s3, s4⟩ := switchOps_term (applyOps t (flush rp).2) r.cursorHidden c1.onAlt
  obtain ⟨s5, s6, s7⟩ := switchOps_alt_home (applyOps t (flush rp).2) r.cursorHidden c1.onAlt
  rw [← ht1] at s1 s2 s3 s4 s5 s6 s7
  obtain ⟨m1, _, _, _, _⟩ := enterAlt_main rp t ha hinv.onAlt
  rw [hpre] at m1
  have hshow : ∀ t' : Term, t'.main.cells = (applyOps t (flush rp).2).main.cells → mainShows t' := by
    intro t' hc
    refine ⟨?_, ?_, ?_⟩
    · intro ρ hρ c; rw [hc]; exact c6 ρ hρ c
    · intro j l hj; rw [row_of_cells hc]; exact c7 j l hj
    · intro i l hi; rw [row_of_cells hc]; exact c12 i l hi
  -- the round trip
  obtain ⟨_, _, d3, d4, d5, _, d7, d8, _, d10, d11⟩ := C06.C06_alt_roundtrip rp t p9 ops hs
  rw [hpre] at d4 d5 d7 d8
  refine ⟨⟨p4, hq', p5, p7, ?_⟩, ?_, hops, ⟨s1, ?_, s4, s5, s6, s7, by rw [s2, c4], by rw [s3, c5]⟩,
    hshow t1 m1, ⟨d3, d4.trans c2, d3.onAlt, d10, d11, ?_⟩, hshow t3 d5⟩
  · simp [Q, qrows]
  · show (enterAlt rp).1.queued = []
    rw [(enterAlt_fields rp ha).2.2.2.2.2.1, hpre]; exact c2
  · exact enterAlt_inv rp t ha hinv.onAlt p9.width p9.height hinv.wpos hinv.hpos
  · rw [viewTop_congr d8 d7]; exact c8

/-- **The alt screen never holds queued printed lines.**  `AltQ r`: a queued printed line means
the renderer is on the main screen with an invalid render cache (`queued ≠ [] → altActive = false
∧ lastRender = []`); it holds in the initial state and in every state with nothing queued.  It is
kept along EVERY history of renderer operations `ops` in which an EnterAltScreen issued on the
main screen while lines are queued finds a pending view (`EntersWithView r ops`, checked step by
step) — whatever else happens: views, flushes on either screen, resizes, ClearScreen, modes,
ExitAltScreen, `stop`, `kill`, and `printLine` on either screen (while the alt screen is active a
`printLine` is dropped, so it queues nothing).  Hence, in every state of such a history (every
prefix `ops.take k`): `altActive → queued = []`.

The side condition cannot be dropped: with lines queued and NO pending view the render that
precedes the switch is a no-op (`flush` returns early when `buf` is empty) and the queue is carried
into the alt screen, as before the repair — see the run `[printLine "P", enterAlt]` below, from the
initial state.  It holds for every history of the event loop, which writes the model's view after
every message it handles: `C14_alt_queue_empty_loop`. -/
theorem C14_alt_queue_empty (r : RState) (h0 : AltQ r) (ops : List ROp)
    (hv : EntersWithView r ops) (k : Nat) :
    AltQ (run r (ops.take k)).1 ∧
    ((run r (ops.take k)).1.altActive = true → (run r (ops.take k)).1.queued = []) := by
  have h := altQ_run (ops.take k) r h0 (entersWithView_take ops r k hv)
  exact ⟨h, fun ha => h.alt_empty ha⟩

/-- ... in particular for EVERY history from the initial state (or from any state with nothing
queued) in which each `printLine` is directly followed by a `write` — the event loop handles the
print message and then writes the view — or ends the history (`viewAfterPrint`): in every state
reached, `altActive → queued = []`. -/
theorem C14_alt_queue_empty_loop (r : RState) (hq : r.queued = []) (ops : List ROp)
    (hv : viewAfterPrint ops = true) (k : Nat) :
    (run r (ops.take k)).1.altActive = true → (run r (ops.take k)).1.queued = [] :=
  (C14_alt_queue_empty r (altQ_of_empty r hq) ops
    (entersWithView_of_viewAfterPrint ops r (altQ_of_empty r hq)
      (fun _ => Or.inl (fun h => absurd hq h)) hv) k).2

/-- the side condition of `C14_alt_queue_empty` is needed: from the initial state, a print and
then EnterAltScreen with no view written yet — the alt screen is active and "P" is still queued -/
example :
    let r := (run {} [.printLine [80], .enterAlt]).1
    r.altActive = true ∧ r.queued = [[80]] ∧ ¬ EntersWithView {} [.printLine [80], .enterAlt] := by
  refine ⟨by decide, by decide, ?_⟩
  intro h
  exact h.2.1 rfl rfl (by decide) rfl

/-! ### concrete run (non-vacuity): W = 10, H = 5, cursor on window row 1, old output on row 0 -/

def ri : RState := { width := 10, height := 5 }
def ti : Term := { w := 10, h := 5, main := { cells := fun r _ => if r = 0 then 120 else 32, cr := 1 } }

def mainRows (t : Term) (lo k : Nat) : List Bytes :=
  (List.range k).map (fun i => t.main.row t.w (lo + i))

/-- run renderer steps, feeding the terminal -/
def runOn (r : RState) (t : Term) : List ROp → RState × Term
  | [] => (r, t)
  | o :: os => runOn (step r o).1 (applyOps t (step r o).2) os

example : qrows 10 [[104,101,108,108,111,32,119,111,114,108,100,33,33], []] =
    [[104,101,108,108,111,32,119,111,114,108,100,33,33], [100,33,33], []] := by decide

set_option maxRecDepth 100000 in
/-- view "v1\nv2"; print "hello world!!" (13 bytes: two rows) and "" (one blank row); view
"v1\nV2": rows 1..3 hold the printed lines, the view is on rows 4..5 (the window scrolled by 1),
row 0 is untouched, the queue is empty; a further flush of "v1\nV3" leaves the printed rows alone -/
example :
    let p := runOn ri ti [.write [118,49,10,118,50], .flush,
      .printLine [104,101,108,108,111,32,119,111,114,108,100,33,33], .printLine [],
      .write [118,49,10,86,50], .flush, .write [118,49,10,86,51], .flush]
    mainRows p.2 0 6 =
      [List.replicate 10 120,
       [104,101,108,108,111,32,119,111,114,108], [100,33,33,32,32,32,32,32,32,32],
       List.replicate 10 32,
       [118,49,32,32,32,32,32,32,32,32], [86,51,32,32,32,32,32,32,32,32]] ∧
    p.1.queued = [] ∧ p.2.main.top = 1 ∧ p.2.main.cr = 5 ∧ p.2.main.cc = 0 := by decide

/-- a styled printed line ("\x1b[1mhello world!!\x1b[0m": 21 bytes, 13 cells) takes two rows,
like the plain one: the rows are pieces of its visible part -/
example : qrows 10 [[27,91,49,109,104,101,108,108,111,32,119,111,114,108,100,33,33,27,91,48,109]] =
    [[104,101,108,108,111,32,119,111,114,108,100,33,33], [100,33,33]] := by decide

set_option maxRecDepth 100000 in
/-- ... it is written whole (all 21 bytes, then EL0 because 13 is not a multiple of 10), wraps
after the 10th CELL, and the view follows directly below its two rows -/
example :
    let p := runOn ri ti [.write [118,49], .flush,
      .printLine [27,91,49,109,104,101,108,108,111,32,119,111,114,108,100,33,33,27,91,48,109],
      .write [118,50], .flush]
    mainRows p.2 0 4 =
      [List.replicate 10 120,
       [104,101,108,108,111,32,119,111,114,108], [100,33,33,32,32,32,32,32,32,32],
       [118,50,32,32,32,32,32,32,32,32]] ∧
    p.1.queued = [] ∧ p.2.main.top = 0 ∧ p.2.main.cr = 3 ∧ p.2.main.cc = 0 ∧
    (flush (write (step (flush (write ri [118,49])).1
        (.printLine [27,91,49,109,104,101,108,108,111,32,119,111,114,108,100,33,33,27,91,48,109])).1
      [118,50])).2 =
      [.text [27,91,49,109,104,101,108,108,111,32,119,111,114,108,100,33,33,27,91,48,109], .el0,
       .cr, .lf, .cr, .text [118,50], .el0, .cub 10] := by decide

/-! ### a whole history (non-vacuity of `C14_history`): W = 10, H = 4 so that printing scrolls;
cursor on window row 1, old output ("xxxxxxxxxx") on row 0 -/

def rh : RState := { width := 10, height := 4 }
def th : Term := { w := 10, h := 4, main := { cells := fun r _ => if r = 0 then 120 else 32, cr := 1 } }

/-- view "a\nb"; print "one"; flush; print "two\nabcdefghijklm" (the second line has 13 cells: two
rows); view "a\nB\nc"; flush; flush again (a no-op); print "x" (no flush) -/
def histOps : List ROp :=
  [.write [97,10,98], .printLine [111,110,101], .flush,
   .printLine [116,119,111,10,97,98,99,100,101,102,103,104,105,106,107,108,109],
   .write [97,10,66,10,99], .flush, .flush, .printLine [120]]

/-- the hypotheses of `C14_history` hold for this run -/
example : InlineInv rh th ∧ J rh ∧ ∀ o ∈ histOps, inlineStable o = true :=
  ⟨⟨rfl, rfl, rfl, rfl, by decide, by decide, ⟨rfl, rfl⟩, by decide,
    fun ρ h _ c _ => by
      have : ρ ≠ 0 := by have : th.main.cr = 1 := rfl; omega
      simp [th, this],
    fun _ h => by simp [rh] at h, fun h => by simp [rh] at h⟩,
   fun h => absurd rfl h, by decide⟩

/-- the logs: two printing flushes, the first prints "one", the second "two" and the 13-cell line
(rows: the line from cell 0 on and from cell 10 on); "x" is pending; nothing else -/
example :
    viewTop rh th = 1 ∧
    printedLines rh histOps =
      [[111,110,101], [116,119,111], [97,98,99,100,101,102,103,104,105,106,107,108,109]] ∧
    printedRows 10 rh histOps =
      [[111,110,101], [116,119,111], [97,98,99,100,101,102,103,104,105,106,107,108,109],
       [107,108,109]] ∧
    pendingLines rh histOps = [[120]] ∧
    printLinesOf histOps =
      [[111,110,101], [116,119,111], [97,98,99,100,101,102,103,104,105,106,107,108,109], [120]] := by
  decide

set_option maxRecDepth 100000 in
/-- the terminal after the history: the tape rows from `R0 = 1` on are "one", "two", the two rows
of the 13-cell line, then the view "a", "B", "c" (rows 5..7, the cursor on row 7, column 0); the
4-row window scrolled down to row 4, so the printed lines have all gone into the history, where
they are intact; row 0 above `R0` is as before; `queued = ["x"]` -/
example :
    let p := runOn rh th histOps
    mainRows p.2 0 8 =
      [List.replicate 10 120,
       [111,110,101,32,32,32,32,32,32,32], [116,119,111,32,32,32,32,32,32,32],
       [97,98,99,100,101,102,103,104,105,106], [107,108,109,32,32,32,32,32,32,32],
       [97,32,32,32,32,32,32,32,32,32], [66,32,32,32,32,32,32,32,32,32],
       [99,32,32,32,32,32,32,32,32,32]] ∧
    p.1.queued = [[120]] ∧ p.2.main.top = 4 ∧ p.2.main.cr = 7 ∧ p.2.main.cc = 0 ∧
    p.2.main.pw = false ∧ viewTop p.1 p.2 = 5 ∧
    p.1 = (run rh histOps).1 ∧ p.2.main.cr = ((run rh histOps).2.foldl applyOps th).main.cr := by
  decide

/-- a flush with NO pending view does nothing, also when lines are queued: they stay queued
until the next view is flushed -/
example :
    let r1 := (step (flush (write rh [97])).1 (.printLine [111,110,101])).1
    flush r1 = (r1, []) ∧ r1.queued = [[111,110,101]] ∧ flushPrints r1 = false ∧
    flushPrints (write r1 [97]) = true := by decide

set_option maxRecDepth 100000 in
/-- ... then ClearScreen and the view "v": the window (tape rows 4..7) is blanked — including row
4, the last row of the 13-cell printed line, which was still in the window —, the pending "x" is
printed on the top row of the window and the view directly below it; rows 0..3, which had scrolled
into the history, are intact; the renderer still counted 3 lines, so the flush starts with CUU 2,
which the terminal clamps at the top row (and, the new view being shorter, it erases below: ED0) -/
example :
    let p := runOn rh th (histOps ++ [.clearScreen, .write [118], .flush])
    mainRows p.2 0 8 =
      [List.replicate 10 120,
       [111,110,101,32,32,32,32,32,32,32], [116,119,111,32,32,32,32,32,32,32],
       [97,98,99,100,101,102,103,104,105,106], [120,32,32,32,32,32,32,32,32,32],
       [118,32,32,32,32,32,32,32,32,32], List.replicate 10 32, List.replicate 10 32] ∧
    p.1.queued = [] ∧ p.2.main.top = 4 ∧ p.2.main.cr = 5 ∧ p.2.main.cc = 0 ∧
    (flush (write (runOn rh th (histOps ++ [.clearScreen])).1 [118])).2 =
      [.cuu 2, .text [120], .el0, .cr, .lf, .cr, .ed0, .text [118], .el0, .cub 10] ∧
    (∀ o ∈ histOps ++ [.clearScreen, .write [118], .flush], inlineStableC o = true) := by
  decide

/-! ### print, EnterAltScreen, quit on the alt screen (W = 10, H = 5): the repaired `enterAlt` and,
for contrast, the old one -/

/-- the first `k` window rows of the alt screen -/
def altRows (t : Term) (k : Nat) : List Bytes :=
  (List.range k).map (fun i => t.alt.row t.w (t.alt.top + i))

/-- `enterAltScreen()` BEFORE the repair: switch at once, whatever is queued -/
def enterAltOld (r : RState) : RState × List TermOp :=
  if r.altActive then (r, [])
  else (({ r with altActive := true, altLinesRendered := 0 } : RState).repaint,
    [.decset 1049, .ed2, .home, cursorOp r.cursorHidden])

/-- with nothing queued the two definitions agree -/
example (r : RState) (hq : r.queued = []) : enterAlt r = enterAltOld r := by
  cases ha : r.altActive with
  | true => simp [enterAlt, enterAltOld, ha]
  | false => rw [enterAlt_noq r ha hq]; simp [enterAltOld, ha]

/-- `runOn` with the old `enterAlt` -/
def runOnOld (r : RState) (t : Term) : List ROp → RState × Term
  | [] => (r, t)
  | .enterAlt :: os => runOnOld (enterAltOld r).1 (applyOps t (enterAltOld r).2) os
  | o :: os => runOnOld (step r o).1 (applyOps t (step r o).2) os

/-- the view "aaa\nbbb" is rendered (tape rows 1, 2); `Println("P")` — the event loop handles the
message and writes the (unchanged) view —; EnterAltScreen; the program quits there: `stop` on the
alt screen, then ExitAltScreen (the order of `shutdown`) -/
def printAltOps : List ROp :=
  [.write [97,97,97,10,98,98,98], .flush, .printLine [80], .write [97,97,97,10,98,98,98],
   .enterAlt, .stop, .exitAlt]

example : viewAfterPrint printAltOps = true := by decide

/-- the hypotheses of `C14_print_then_alt` hold at the start of this run (a pending view, the
inline invariant) -/
example : InlineInv (write ri [97,97,97,10,98,98,98]) ti ∧ (write ri [97,97,97,10,98,98,98]).buf ≠ [] :=
  ⟨InlineInv.write ⟨rfl, rfl, rfl, rfl, by decide, by decide, ⟨rfl, rfl⟩, by decide,
    fun ρ h _ c _ => by
      have : ρ ≠ 0 := by have : ti.main.cr = 1 := rfl; omega
      simp [ti, this],
    fun _ h => by simp [ri] at h, fun h => by simp [ri] at h⟩ _, by decide⟩

set_option maxRecDepth 100000 in
/-- the repaired `enterAlt` first renders on the main screen — CUU 1, "P", the view — and then
switches; at the end the main screen shows "P" above "aaa", "bbb" (old output on row 0 intact),
the alt screen was never painted, nothing is queued -/
example :
    let q := runOn ri ti (printAltOps.take 4)
    let p := runOn ri ti printAltOps
    (enterAlt q.1).2 =
      [.cuu 1, .text [80], .el0, .cr, .lf, .cr, .text [97,97,97], .el0, .cr, .lf,
       .text [98,98,98], .el0, .cub 10, .decset 1049, .ed2, .home, .decset 25] ∧
    (enterAlt q.1).2 = (flush q.1).2 ++ [.decset 1049, .ed2, .home, .decset 25] ∧
    (enterAlt q.1).1.queued = [] ∧
    mainRows p.2 0 5 =
      [List.replicate 10 120, [80,32,32,32,32,32,32,32,32,32], [97,97,97,32,32,32,32,32,32,32],
       [98,98,98,32,32,32,32,32,32,32], List.replicate 10 32] ∧
    altRows p.2 5 = List.replicate 5 (List.replicate 10 32) ∧
    p.1.queued = [] ∧ p.2.onAlt = false ∧ p.2.main.top = 0 ∧ p.2.main.cr = 3 ∧ p.2.main.cc = 0 := by
  decide

set_option maxRecDepth 100000 in
/-- the OLD `enterAlt` writes only the four switching operations and carries "P" into the alt
screen, where no flush prints it: at the end "P" is NOWHERE — not on the main screen ("aaa", "bbb"
as before the print), not on the alt screen (`stop` painted the view there and erased its cursor
line) — and it is still in the queue of a renderer that has stopped -/
example :
    let q := runOnOld ri ti (printAltOps.take 4)
    let p := runOnOld ri ti printAltOps
    (enterAltOld q.1).2 = [.decset 1049, .ed2, .home, .decset 25] ∧
    (enterAltOld q.1).1.queued = [[80]] ∧
    mainRows p.2 0 5 =
      [List.replicate 10 120, [97,97,97,32,32,32,32,32,32,32], [98,98,98,32,32,32,32,32,32,32],
       List.replicate 10 32, List.replicate 10 32] ∧
    altRows p.2 5 =
      [[97,97,97,32,32,32,32,32,32,32], List.replicate 10 32, List.replicate 10 32,
       List.replicate 10 32, List.replicate 10 32] ∧
    p.1.queued = [[80]] ∧ p.2.onAlt = false ∧ p.2.main.cr = 2 := by
  decide

set_option maxRecDepth 100000 in
/-- the residual case (the side condition of `C14_alt_queue_empty`): if EnterAltScreen comes
directly after the print, with NO view written since the last flush (`buf = []`; not a history of
the event loop), the render before the switch is a no-op and "P" is carried into the alt screen
exactly as before the repair -/
example :
    let ops : List ROp := [.write [97,97,97,10,98,98,98], .flush, .printLine [80], .enterAlt, .stop, .exitAlt]
    let q := runOn ri ti (ops.take 3)
    let p := runOn ri ti ops
    viewAfterPrint ops = false ∧ q.1.buf = [] ∧
    (enterAlt q.1).2 = [.decset 1049, .ed2, .home, .decset 25] ∧ (enterAlt q.1).1.queued = [[80]] ∧
    mainRows p.2 0 5 =
      [List.replicate 10 120, [97,97,97,32,32,32,32,32,32,32], [98,98,98,32,32,32,32,32,32,32],
       List.replicate 10 32, List.replicate 10 32] ∧
    p.1.queued = [[80]] := by
  decide

end Tea.Props.C14
