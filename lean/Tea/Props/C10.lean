import Tea.Proofs.Paste
/-
C10 — Bracketed paste content arrives intact as one uninterpreted paste message.

"Whatever lies between the bracketed-paste start and end markers - any text of any
length, including control characters, escape sequences, mouse reports and invalid
bytes - is delivered as exactly one key message flagged as a paste whose characters
are the valid characters of that content in order, however the content and the end
marker are divided into reads after the start marker has arrived. Nothing inside the
paste is ever interpreted as a key press or mouse event, and events before and after
the paste are decoded as usual."

The theorems are about the model of key.go / key_sequences.go in `Tea/Input`, for EVERY
key table `T`, every list of lengths `lens`, and every payload `p : Bytes` (a list of
ARBITRARY natural numbers, so also invalid bytes) in which the end marker does not occur
(`hp : ¬ bpEnd <:+: p`; the first end marker ends the paste, so this is the definition of
"the content between the markers").

Vocabulary (defined in `Tea/Proofs/Paste.lean`, restated below by `rfl` theorems):
* `pasteMsg p`   the key message `{type := KeyRunes, paste := true, runes := pasteRunes p.length p}`;
* `pasteOut p`   the reader output: `pasteMsg p`, accounting for `bpStart ++ p ++ bpEnd`;
* `validRunes p` iterate `utf8.DecodeRune`, drop `utf8.RuneError` results (no fuel);
* `StartFree T`  no key sequence of `T` begins with the start marker (decidable by `startFreeB`;
                 true of the real table, to be checked by a bridge theorem on `Tea.Gen`);
* `ReadOK T c`   `c.length ≠ bufSize ∨ StartFree T`: the read `c` is a short read, or `T` is
                 `StartFree` (then completely filled 256-byte reads are covered as well).
Only property theorems live here; helper lemmas are in `Tea/Proofs/Paste.lean`.
-/
namespace Tea.Props.C10
open Tea Tea.Input Tea.Utf8

/-! ### vocabulary, restated -/

/-- the message of a completed paste with payload `p` -/
theorem pasteMsg_def (p : Bytes) : pasteMsg p =
    .key { type := keyRunes, paste := true, runes := pasteRunes p.length p, alt := false } := rfl

/-- the reader output of a completed paste: the message, and the bytes it accounts for -/
theorem pasteOut_def (p : Bytes) : pasteOut p =
    { msg := some (pasteMsg p), consumed := bpStart ++ p ++ bpEnd } := rfl

/-- `StartFree T`: no key sequence of the table begins with the start marker -/
theorem startFree_def (T : Table) : StartFree T ↔ ∀ e ∈ T, ¬ bpStart <+: e.seq := Iff.rfl

/-- `ReadOK T c`: a short read, or any read when the table is `StartFree` -/
theorem readOK_def (T : Table) (c : Bytes) : ReadOK T c ↔ (c.length ≠ bufSize ∨ StartFree T) := Iff.rfl

/-- a short read is always fine -/
theorem readOK_of_short (T : Table) (c : Bytes) (h : c.length < bufSize) : ReadOK T c :=
  Or.inl (Nat.ne_of_lt h)

/-- the Boolean test decides `StartFree` (use `by decide` on a concrete table) -/
theorem startFree_of_test (T : Table) (h : startFreeB T = true) : StartFree T := startFree_of_B h

/-! ### 1. finding the end marker -/

/-- `bytes.Index` returns -1 exactly when the pattern does not occur (any pattern). -/
theorem indexOf_none_iff (pat q : Bytes) : indexOf pat q = none ↔ ¬ pat <:+: q :=
  indexOf_eq_none_iff pat q

/-- what `bytes.Index` returns is an occurrence, and no occurrence starts earlier. -/
theorem indexOf_first (pat s t : Bytes) :
    ∃ i, indexOf pat (s ++ pat ++ t) = some i ∧ i ≤ s.length ∧ pat <+: (s ++ pat ++ t).drop i := by
  obtain ⟨i, h1, h2⟩ := indexOf_le_of_occurrence pat s t
  exact ⟨i, h1, h2, indexOf_some_prefix pat _ i h1⟩

/-- the end marker has no non-trivial border: no proper non-empty suffix of it is a prefix of
it (its first byte ESC occurs only at position 0). -/
theorem bpEnd_border_free : ∀ k < 6, 0 < k → ¬ bpEnd.drop k <+: bpEnd := by decide

/-- hence an occurrence of the end marker cannot start inside `s` and run into a following end
marker: a prefix occurrence in `s ++ bpEnd ++ t` with `s ≠ []` lies completely inside `s`. -/
theorem bpEnd_no_overlap (s t : Bytes) (h : bpEnd <+: s ++ bpEnd ++ t) : s = [] ∨ bpEnd <+: s :=
  bpEnd_no_border s t h

/-- `bytes.Index(payload ++ end marker ++ rest, end marker) = len(payload)` when the payload
does not contain the end marker, whatever follows. -/
theorem indexOf_end (p rest : Bytes) (hp : ¬ bpEnd <:+: p) :
    indexOf bpEnd (p ++ bpEnd ++ rest) = some p.length :=
  Tea.Input.indexOf_end p rest hp

/-- a proper prefix of `payload ++ end marker` contains no end marker: while the paste is
being received in pieces, no piece boundary can fake a complete end marker. -/
theorem no_end_in_proper_prefix (p q : Bytes) (hp : ¬ bpEnd <:+: p)
    (hq : q <+: p ++ bpEnd) (hne : q ≠ p ++ bpEnd) : ¬ bpEnd <:+: q :=
  no_bpEnd_in_proper_prefix p q hp hq hne

/-! ### 2. a complete paste is exactly one paste message -/

/-- on a buffer that starts with the start marker, `isIncompleteEvent` is true ONLY when some
key sequence of the table properly extends the whole buffer (exact characterisation). -/
theorem C10_incomplete_iff (T : Table) (body : Bytes) :
    isIncompleteEvent T (bpStart ++ body) = isProperPrefixOfKey T (bpStart ++ body) :=
  isIncompleteEvent_bpStart T body

/-- sufficient condition 1: no key sequence begins with the start marker. -/
theorem C10_incomplete_false_of_startFree (T : Table) (hT : StartFree T) (body : Bytes) :
    isIncompleteEvent T (bpStart ++ body) = false :=
  isIncompleteEvent_bpStart_startFree hT body

/-- sufficient condition 2: every key sequence has at most 6 bytes. -/
theorem C10_incomplete_false_of_short_keys (T : Table) (hT : ∀ e ∈ T, e.seq.length ≤ 6)
    (body : Bytes) : isIncompleteEvent T (bpStart ++ body) = false :=
  isIncompleteEvent_bpStart_short hT body

/-- Start marker, payload, end marker, anything after: detectOneMsg returns exactly one key
message flagged as a paste, of width `6 + len(payload) + 6`, whose runes are the paste rune
loop on the payload - for every table, every payload (key sequences, mouse reports, control
and invalid bytes included) and every `rest`. The payload is not interpreted because the
paste check runs before key-sequence detection and the rune loop (and the mouse and focus
checks reject the start marker). -/
theorem C10_one_message (T : Table) (lens : List Nat) (p rest : Bytes) (more : Bool)
    (hp : ¬ bpEnd <:+: p)
    (hmore : more = false ∨ isIncompleteEvent T (bpStart ++ p ++ bpEnd ++ rest) = false) :
    detectOneMsg T lens (bpStart ++ p ++ bpEnd ++ rest) more
      = .ok (12 + p.length,
          some (.key { type := keyRunes, paste := true, runes := pasteRunes p.length p, alt := false })) := by
  have hb : bpStart ++ p ++ bpEnd ++ rest = bpStart ++ (p ++ bpEnd ++ rest) := by
    simp [List.append_assoc]
  rw [hb] at hmore ⊢
  rw [detectOneMsg_bpStart T lens _ _ hmore, Tea.Input.indexOf_end p rest hp]
  simp only
  rw [List.append_assoc, List.take_left' rfl]
  rfl

/-- the same without a side condition on `more`, for a table none of whose key sequences
begins with the start marker. -/
theorem C10_one_message_startFree (T : Table) (hT : StartFree T) (lens : List Nat) (p rest : Bytes)
    (more : Bool) (hp : ¬ bpEnd <:+: p) :
    detectOneMsg T lens (bpStart ++ p ++ bpEnd ++ rest) more = .ok (12 + p.length, some (pasteMsg p)) := by
  apply C10_one_message T lens p rest more hp
  right
  have hb : bpStart ++ p ++ bpEnd ++ rest = bpStart ++ (p ++ bpEnd ++ rest) := by
    simp [List.append_assoc]
  rw [hb]
  exact isIncompleteEvent_bpStart_startFree hT _

/-- inside the decode loop: wherever the loop reaches a start marker - whatever was emitted
before (`acc`: "events before the paste are decoded as usual" and do not influence it) - it
emits the one paste output and goes on with the bytes after the end marker, which are decoded
by the same loop as any other input ("events after the paste are decoded as usual"). -/
theorem C10_in_loop (T : Table) (lens : List Nat) (more : Bool) (fuel : Nat) (p rest : Bytes)
    (acc : List Out) (hp : ¬ bpEnd <:+: p)
    (hmore : more = false ∨ isIncompleteEvent T (bpStart ++ p ++ bpEnd ++ rest) = false) :
    decodeLoop T lens more (fuel + 1) (bpStart ++ p ++ bpEnd ++ rest) acc =
      decodeLoop T lens more fuel rest (pasteOut p :: acc) :=
  decodeLoop_paste_step T lens more fuel p rest acc hp hmore

/-! ### 3. an unterminated paste always waits -/

/-- start marker followed by ANY bytes not containing the end marker: "need more data" (width
0, no message). Nothing inside an open paste is interpreted, whatever it looks like. -/
theorem C10_need_more (T : Table) (lens : List Nat) (q : Bytes) (more : Bool)
    (hq : ¬ bpEnd <:+: q)
    (hmore : more = false ∨ isIncompleteEvent T (bpStart ++ q) = false) :
    detectOneMsg T lens (bpStart ++ q) more = .ok (0, none) := by
  rw [detectOneMsg_bpStart T lens q more hmore, (indexOf_eq_none_iff bpEnd q).2 hq]

/-- inside the decode loop: wherever the loop reaches a start marker whose end marker has not
arrived yet, it stops; what was decoded before is emitted (`acc`), and the left-over is exactly
the start marker and what follows it - the initial state of `C10_chunked_from`. -/
theorem C10_hold (T : Table) (lens : List Nat) (more : Bool) (fuel : Nat) (q : Bytes)
    (acc : List Out) (hq : ¬ bpEnd <:+: q)
    (hmore : more = false ∨ isIncompleteEvent T (bpStart ++ q) = false) :
    decodeLoop T lens more (fuel + 1) (bpStart ++ q) acc = .ok (acc.reverse, bpStart ++ q) :=
  decodeLoop_paste_open T lens more fuel q acc hq hmore

/-! ### 4. the characters of the paste -/

/-- the specification `validRunes`, equation 1 -/
theorem validRunes_nil : validRunes [] = [] := Tea.Input.validRunes_nil

/-- the specification `validRunes`, equation 2: decode one rune, drop it if it is
`utf8.RuneError`, continue after its encoding -/
theorem validRunes_step (p : Bytes) (h : p ≠ []) :
    validRunes p =
      if (decodeRune p).1 = runeError then validRunes (p.drop (decodeRune p).2)
      else (decodeRune p).1 :: validRunes (p.drop (decodeRune p).2) :=
  validRunes_of_ne_nil h

/-- the runes of the paste message are exactly the valid characters of the payload in order;
the loop's fuel `len(payload)` suffices because every step consumes at least one byte. -/
theorem C10_runes_valid (p : Bytes) : pasteRunes p.length p = validRunes p :=
  pasteRunes_eq_validRunes p.length p (Nat.le_refl _)

/-- `utf8.DecodeRune` inverts `utf8.EncodeRune` on every valid scalar value, whatever follows. -/
theorem C10_decode_encode (r : Nat) (hr : validScalar r = true) (tl : Bytes) :
    decodeRune (encodeRune r ++ tl) = (r, (encodeRune r).length) :=
  decodeRune_encodeRune r hr tl

/-- pasting the UTF-8 encoding of valid scalar values gives them back, except U+FFFD itself
(dropped: the Go loop cannot tell it from a decoding error). -/
theorem C10_runes_roundtrip_filter (rs : List Nat) (h : ∀ r ∈ rs, validScalar r = true) :
    pasteRunes (encodeRunes rs).length (encodeRunes rs) = rs.filter (fun r => r != runeError) := by
  rw [C10_runes_valid, validRunes_encodeRunes rs h]

/-- pasting the UTF-8 encoding of valid scalar values other than U+FFFD gives the list back. -/
theorem C10_runes_roundtrip (rs : List Nat) (h : ∀ r ∈ rs, validScalar r = true ∧ r ≠ runeError) :
    pasteRunes (encodeRunes rs).length (encodeRunes rs) = rs := by
  rw [C10_runes_roundtrip_filter rs (fun r hr => (h r hr).1)]
  apply List.filter_eq_self.2
  intro r hr
  simpa using (h r hr).2

/-! ### 5. the reader, after the start marker has arrived -/

/-- one read that does not complete the end marker (left-over = start marker ++ `q`): no
message, everything is kept. -/
theorem C10_silent_step (T : Table) (lens : List Nat) (q c : Bytes)
    (hc : ReadOK T c) (h : ¬ bpEnd <:+: q ++ c) :
    processRead T lens (bpStart ++ q) c = .ok ([], bpStart ++ q ++ c) :=
  processRead_paste_silent T lens q c hc h

/-- the read that completes the end marker (`r` = the bytes of the read after the marker): the
paste output comes first, then `r` is decoded by the ordinary loop. -/
theorem C10_completing_step (T : Table) (lens : List Nat) (p q c r : Bytes)
    (hc : ReadOK T c) (hp : ¬ bpEnd <:+: p) (h : q ++ c = p ++ bpEnd ++ r) :
    processRead T lens (bpStart ++ q) c =
      match decodeLoop T lens (c.length == bufSize) (r.length + 1) r [] with
      | .ok (out, left) => .ok (pasteOut p :: out, left)
      | .error e => .error e :=
  processRead_paste_complete T lens p q c r hc hp h

/-- for a short completing read, "the ordinary loop on `r`" is literally a fresh read `r` with
nothing held back. -/
theorem C10_completing_step_short (T : Table) (lens : List Nat) (p q c r : Bytes)
    (hc : c.length < bufSize) (hq : ¬ bpEnd <:+: q) (hp : ¬ bpEnd <:+: p)
    (h : q ++ c = p ++ bpEnd ++ r) :
    processRead T lens (bpStart ++ q) c =
      match processRead T lens [] r with
      | .ok (out, left) => .ok (pasteOut p :: out, left)
      | .error e => .error e :=
  processRead_paste_complete_short T lens p q c r hc hq hp h

/-- NO message until the end marker is complete: after reads whose concatenation is a proper
prefix of `payload ++ end marker`, nothing has been emitted and the left-over is the start
marker plus all of them - also when the input ends there (`eof = true`) or the program is
cancelled (`eof = false`). No condition on how the reads are divided (empty reads allowed). -/
theorem C10_chunked_silent (T : Table) (lens : List Nat) (eof : Bool) (p : Bytes)
    (hp : ¬ bpEnd <:+: p) (cs : List Bytes) (hcs : ∀ c ∈ cs, ReadOK T c)
    (hpre : cs.flatten <+: p ++ bpEnd) (hne : cs.flatten ≠ p ++ bpEnd) (acc : List Out) :
    readAll T lens eof cs bpStart acc = .ok (acc, bpStart ++ cs.flatten) :=
  readAll_paste_open T lens eof cs acc hcs (no_bpEnd_in_proper_prefix p _ hp hpre hne)

/-- EVERY division of `payload ++ end marker` into reads `cs` (read after the start marker has
arrived), followed by any further reads `posts`: the reader behaves exactly as if it had
emitted the ONE paste output and held nothing back, and then goes on with `posts`. So the
division into reads is unobservable, exactly one message stems from the paste, and what
follows is decoded from a clean state. -/
theorem C10_chunked (T : Table) (lens : List Nat) (eof : Bool) (p : Bytes) (hp : ¬ bpEnd <:+: p)
    (cs : List Bytes) (hcs : ∀ c ∈ cs, ReadOK T c) (hflat : cs.flatten = p ++ bpEnd)
    (posts : List Bytes) (acc : List Out) :
    readAll T lens eof (cs ++ posts) bpStart acc =
      readAll T lens eof posts [] (acc ++ [pasteOut p]) := by
  have := readAll_paste_exact T lens eof p hp posts cs [] acc hcs
    (fun h => by
      have := h.length_le
      simp [bpEnd] at this)
    (by simpa using hflat)
  simpa using this

/-- the same when the start marker arrived together with the first part `q` of the payload
(left-over `bpStart ++ q`, see `C10_hold`): the reads `cs` divide the remainder in any way. -/
theorem C10_chunked_from (T : Table) (lens : List Nat) (eof : Bool) (p q : Bytes)
    (hp : ¬ bpEnd <:+: p) (hq : ¬ bpEnd <:+: q)
    (cs : List Bytes) (hcs : ∀ c ∈ cs, ReadOK T c) (hflat : q ++ cs.flatten = p ++ bpEnd)
    (posts : List Bytes) (acc : List Out) :
    readAll T lens eof (cs ++ posts) (bpStart ++ q) acc =
      readAll T lens eof posts [] (acc ++ [pasteOut p]) :=
  readAll_paste_exact T lens eof p hp posts cs q acc hcs hq hflat

/-- the statement of the task, literally: non-empty short reads `cs` dividing
`payload ++ end marker`, then one more read `post`, then cancellation. The result is the paste
output followed by whatever a fresh read `post` decodes to. -/
theorem C10_chunked_short (T : Table) (lens : List Nat) (p : Bytes) (hp : ¬ bpEnd <:+: p)
    (cs : List Bytes) (hcs : ∀ c ∈ cs, c ≠ [] ∧ c.length < bufSize)
    (hflat : cs.flatten = p ++ bpEnd) (post : Bytes) :
    readAll T lens false (cs ++ [post]) bpStart [] =
      match processRead T lens [] post with
      | .ok (out, left) => .ok (pasteOut p :: out, left)
      | .error e => .error e := by
  rw [C10_chunked T lens false p hp cs (fun c h => Or.inl (Nat.ne_of_lt (hcs c h).2)) hflat]
  simp only [readAll, List.nil_append]
  cases processRead T lens [] post with
  | error e => rfl
  | ok x => simp

/-- the general form: reads `cs₁` containing no complete end marker, then the read `c` that
completes it somewhere in its middle (`r` = the rest of `c`), then any reads `cs₂`. Nothing is
emitted for `cs₁`; `c` yields the paste output first and then whatever `r` decodes to. -/
theorem C10_chunked_general (T : Table) (lens : List Nat) (eof : Bool) (p r : Bytes)
    (cs₁ : List Bytes) (c : Bytes) (cs₂ : List Bytes) (acc : List Out)
    (hcs : ∀ c' ∈ cs₁, ReadOK T c') (hc : ReadOK T c) (hp : ¬ bpEnd <:+: p)
    (hq : ¬ bpEnd <:+: cs₁.flatten) (h : cs₁.flatten ++ c = p ++ bpEnd ++ r) :
    readAll T lens eof (cs₁ ++ c :: cs₂) bpStart acc =
      match decodeLoop T lens (c.length == bufSize) (r.length + 1) r [] with
      | .ok (out, left) => readAll T lens eof cs₂ left (acc ++ pasteOut p :: out)
      | .error e => .error e :=
  readAll_paste_general T lens eof p r cs₁ c cs₂ acc hcs hc hp hq h

/-! ### 6. the string form of a paste key never looks like a shortcut -/

/-- the bytes of "alt+" -/
def altPlus : List Nat := [0x61, 0x6c, 0x74, 0x2b]

/-- `Key.String()` of key.go for keys of type KeyRunes: "alt+" if Alt, then the runes as
UTF-8, enclosed in "[" "]" when the key is a paste. (Named keys - every other type - are
looked up in `keyNames`; that branch is not part of this property and is not modelled: for
them this function returns only the prefix.) -/
def keyString (k : Key) : List Nat :=
  (if k.alt then altPlus else []) ++
  (if k.type = keyRunes then
     (if k.paste then [0x5b] ++ encodeRunes k.runes ++ [0x5d] else encodeRunes k.runes)
   else [])

/-- the string of a paste key is "[...]" (after "alt+" if Alt): it ends with ']', starts with
'[' (or "alt+["), and has at least two characters. -/
theorem C10_string_form (k : Key) (ht : k.type = keyRunes) (hp : k.paste = true) :
    keyString k = (if k.alt then altPlus else []) ++ [0x5b] ++ encodeRunes k.runes ++ [0x5d] ∧
    (keyString k).getLast? = some 0x5d ∧
    (k.alt = false → (keyString k).head? = some 0x5b) ∧
    (k.alt = true → altPlus ++ [0x5b] <+: keyString k) ∧
    2 ≤ (keyString k).length := by
  have h0 : keyString k = (if k.alt then altPlus else []) ++ [0x5b] ++ encodeRunes k.runes ++ [0x5d] := by
    simp [keyString, ht, hp, List.append_assoc]
  refine ⟨h0, ?_, ?_, ?_, ?_⟩
  · rw [h0]; exact List.getLast?_concat
  · intro ha; rw [h0, ha]; simp
  · intro ha
    rw [h0, ha]
    simp only [if_true, List.append_assoc]
    exact List.prefix_append _ _
  · rw [h0]; simp; omega

/-- so it can never equal a string that does not have that shape - in particular no key name
and no single character, the strings shortcut bindings compare against. -/
theorem C10_string_ne_shortcut (k : Key) (ht : k.type = keyRunes) (hp : k.paste = true)
    (s : List Nat)
    (hs : s.getLast? ≠ some 0x5d ∨ (s.head? ≠ some 0x5b ∧ ¬ altPlus ++ [0x5b] <+: s) ∨ s.length < 2) :
    keyString k ≠ s := by
  intro he
  obtain ⟨_, h1, h2, h3, h4⟩ := C10_string_form k ht hp
  rw [he] at h1 h2 h3 h4
  rcases hs with hs | hs | hs
  · exact hs h1
  · cases ha : k.alt with
    | false => exact hs.1 (h2 ha)
    | true => exact hs.2 (h3 ha)
  · omega

/-- the string of the message of `C10_one_message`: '[' ++ the valid characters ++ ']'. -/
theorem C10_paste_string (p : Bytes) :
    keyString { type := keyRunes, paste := true, runes := pasteRunes p.length p, alt := false }
      = [0x5b] ++ encodeRunes (validRunes p) ++ [0x5d] := by
  rw [C10_runes_valid]
  simp [keyString]

/-! ### non-vacuity: concrete instances -/

/-- a table with the up-arrow sequence, as in key.go -/
def exT : Table := [{ seq := [0x1b, 0x5b, 0x41], key := { type := -2 } }]

/-- payload: 'a', the up-arrow sequence ESC [ A, an invalid byte 0xff, 'é' (c3 a9), an X10 mouse
report ESC [ M 0x20 0x21 0x21 -/
def exP : Bytes := [0x61, 0x1b, 0x5b, 0x41, 0xff, 0xc3, 0xa9, 0x1b, 0x5b, 0x4d, 0x20, 0x21, 0x21]

/-- the hypotheses of the theorems are satisfiable: `exP` has no end marker, `exT` is StartFree -/
example : ¬ bpEnd <:+: exP := by decide
example : StartFree exT := startFree_of_B (by decide)

/-- outside a paste the same bytes ARE interpreted: the up-arrow sequence is a key, ... -/
example : (detectOneMsg exT [3] [0x1b, 0x5b, 0x41, 0xff] false).toOption
    = some (3, some (.key { type := -2 })) := by
  decide

/-- ... inside a paste they are characters: one message, the invalid byte dropped, ESC and the
mouse report kept as characters (`C10_one_message` instantiated and evaluated). -/
example : (detectOneMsg exT [3] (bpStart ++ exP ++ bpEnd ++ [0x1b, 0x5b, 0x41]) true).toOption
    = some (25, some (.key { type := keyRunes, paste := true, alt := false,
                             runes := [0x61, 0x1b, 0x5b, 0x41, 0xe9, 0x1b, 0x5b, 0x4d, 0x20, 0x21, 0x21] })) := by
  decide

/-- the whole reader: 'x', then a paste divided into four reads (the payload cut inside the key
sequence and inside 'é', the end marker cut in two), then an up-arrow in the same read as the
end of the marker: exactly three messages - 'x', ONE paste, up-arrow - and nothing left. -/
example : (readAll exT [3] true
    [[0x78, 0x1b, 0x5b, 0x32, 0x30, 0x30, 0x7e, 0x61, 0x1b], [0x5b, 0x41, 0xff, 0xc3],
     [0xa9, 0x1b, 0x5b, 0x4d, 0x20, 0x21, 0x21, 0x1b, 0x5b, 0x32], [0x30, 0x31, 0x7e, 0x1b, 0x5b, 0x41]]
    [] []).toOption
    = some ([{ msg := some (.key { type := keyRunes, runes := [0x78] }), consumed := [0x78] },
             pasteOut exP,
             { msg := some (.key { type := -2 }), consumed := [0x1b, 0x5b, 0x41] }], []) := by
  decide

/-- `C10_chunked` instantiated: all its hypotheses are jointly satisfiable (payload `exP` and the
end marker divided into three reads, the marker cut in two; then an up-arrow, then end of input) -/
example :
    readAll exT [3] true
      ([[0x61, 0x1b], [0x5b, 0x41, 0xff, 0xc3, 0xa9, 0x1b, 0x5b, 0x4d, 0x20, 0x21, 0x21, 0x1b, 0x5b],
        [0x32, 0x30, 0x31, 0x7e]] ++ [[0x1b, 0x5b, 0x41]]) bpStart []
      = readAll exT [3] true [[0x1b, 0x5b, 0x41]] [] ([] ++ [pasteOut exP]) :=
  C10_chunked exT [3] true exP (by decide) _
    (fun _ _ => Or.inr (startFree_of_B (by decide))) (by decide) _ _

/-- an unterminated paste at end of input: nothing is emitted -/
example : (readAll exT [3] true [bpStart ++ [0x61, 0x1b, 0x5b, 0x41], [0x1b, 0x5b, 0x32, 0x30, 0x31]] [] []).toOption
    = some ([], bpStart ++ [0x61, 0x1b, 0x5b, 0x41, 0x1b, 0x5b, 0x32, 0x30, 0x31]) := by
  decide

/-- the string of that paste key: "[a\x1b[Aé\x1b[M !!]" -/
example : keyString { type := keyRunes, paste := true, runes := pasteRunes exP.length exP }
    = [0x5b, 0x61, 0x1b, 0x5b, 0x41, 0xc3, 0xa9, 0x1b, 0x5b, 0x4d, 0x20, 0x21, 0x21, 0x5d] := by
  decide

end Tea.Props.C10
