import Tea.Proofs.Pipeline
/-
C02 — Every command runs exactly once, off the event loop; its result arrives once.

"Every non-nil command returned by Init or Update - directly or inside a Batch
at any nesting depth - is invoked exactly once, on a goroutine other than the
event loop, so a command that blocks (even forever) never delays other
messages, other commands of the same Batch, or the program's exit. If it
returns a non-nil message while the program is running, that message is
delivered to Update exactly once; nil commands and nil results are skipped and
never reach Update."

Theorems about the Pipeline LTS for every program, every set of senders and
every schedule. Nesting depth needs no induction on trees: a nested Batch is a
command whose result is a `batch` message, which the loop expands when it
arrives - the invariants below hold for every hand-over, whatever issued it.
"Eventually invoked" is a fairness matter: what is proved is that every issued
command IS handed to the dispatcher unless the program is cancelled
(`C02_issued_are_handed`), that each hand-over of a non-nil command starts
exactly one goroutine (`C02_one_goroutine_per_command`) and that nothing any
other process does can disable that goroutine's `cmdRun` step
(`C02_blocked_noninterference` read the other way round).
-/
namespace Tea.Props.C02
open Tea.Runtime

variable {M : Type}

/-- `Batch` (commands.go) drops nil commands, returns nil for none and the command itself for one -/
theorem C02_batch_spec (cs : List (Option Nat)) :
    batchFn cs = match cs.filterMap id with
      | [] => none
      | [c] => some (.inl c)
      | l => some (.inr l) := rfl

theorem C02_batch_nil (cs : List (Option Nat)) (h : ∀ c ∈ cs, c = none) : batchFn cs = none := by
  have : cs.filterMap id = [] := by
    rw [List.filterMap_eq_nil_iff]; intro c hc; rw [h c hc]; rfl
  simp [batchFn, this]

/-- every hand-over of a non-nil command to the dispatcher starts exactly one goroutine, a nil
command none: the goroutines started are, in order, the non-nil commands handed over; and the
command goroutines that exist are exactly those -/
theorem C02_one_goroutine_per_command (P : Prog M) (senders : List Sender)
    (h0 : ∀ sd ∈ senders, sd.cmd = none) (s : St M) (hr : Reachable P senders s) :
    s.spawned = s.handed.filterMap id ∧ s.senders.filterMap (·.cmd) = s.spawned :=
  ⟨(inv_cmd h0 hr).1, (inv_cmd h0 hr).2.1⟩

/-- every command the loop has to hand over (each Update's result, each element of each batch
message) is handed over, in order - or is still pending in the loop's hands - unless the loop
has left through cancellation -/
theorem C02_issued_are_handed (P : Prog M) (senders : List Sender)
    (h0 : ∀ sd ∈ senders, sd.cmd = none) (s : St M) (hr : Reachable P senders s) :
    s.handedEl ++ pendingEl s.el = s.issuedEl ∨
      (s.el = .exited .ctx ∧ s.ctxDone = true ∧ s.handedEl <+: s.issuedEl) :=
  (inv_cmd h0 hr).2.2

/-- a command goroutine executes its command at most once; it sends nothing before it has
executed; what it sends is the command's result (nothing for a nil result) -/
theorem C02_at_most_once (P : Prog M) (senders : List Sender)
    (h0 : ∀ sd ∈ senders, sd.cmd = none ∧ sd.needsRun = false) (s : St M) (hr : Reachable P senders s) :
    s.ran.Nodup ∧
    (∀ (i : Nat) (sd : Sender), s.senders[i]? = some sd → sd.needsRun = true → sd.pos = 0 ∧ sd.pc = .idle) ∧
    (∀ (i : Nat) (sd : Sender) (id : Nat), s.senders[i]? = some sd → sd.cmd = some id →
      sd.script = (P.cmdResult id).toList) := by
  have h := inv_ran h0 hr
  exact ⟨h.1, h.2.2.1, h.2.2.2⟩

/-- the result of a command is received by the loop at most once, and it is that command's
result; a nil result is never received -/
theorem C02_result_at_most_once (P : Prog M) (senders : List Sender)
    (h0 : ∀ sd ∈ senders, sd.cmd = none ∧ sd.needsRun = false ∧ sd.pos = 0 ∧ sd.pc = .idle)
    (s : St M) (hr : Reachable P senders s)
    (i : Nat) (sd : Sender) (id : Nat) (hi : s.senders[i]? = some sd) (hc : sd.cmd = some id) :
    (recvOf i s.recvLog).Sublist (P.cmdResult id).toList := by
  have h1 := ((inv_senders (fun sd h => ⟨(h0 sd h).2.2.1, (h0 sd h).2.2.2⟩) hr).1 i sd hi).2.2.1
  have h2 := (inv_ran (fun sd h => ⟨(h0 sd h).1, (h0 sd h).2.1⟩) hr).2.2.2 i sd id hi hc
  rw [h2] at h1
  exact List.Sublist.trans h1 (List.take_sublist _ _)

/-- ... and while the program is running it IS received exactly once after its Send returned -/
theorem C02_result_delivered (P : Prog M) (senders : List Sender)
    (h0 : ∀ sd ∈ senders, sd.cmd = none ∧ sd.needsRun = false ∧ sd.pos = 0 ∧ sd.pc = .idle)
    (s : St M) (hr : Reachable P senders s) (hctx : s.ctxDone = false)
    (i : Nat) (sd : Sender) (id : Nat) (hi : s.senders[i]? = some sd) (hc : sd.cmd = some id) :
    recvOf i s.recvLog = ((P.cmdResult id).toList).take sd.pos := by
  have h1 := ((inv_senders (fun sd h => ⟨(h0 sd h).2.2.1, (h0 sd h).2.2.2⟩) hr).1 i sd hi).2.2.2 hctx
  have h2 := (inv_ran (fun sd h => ⟨(h0 sd h).1, (h0 sd h).2.1⟩) hr).2.2.2 i sd id hi hc
  rw [h2] at h1; exact h1

/-- commands run off the event loop: executing a command is a step of its own goroutine that
leaves the loop, the model and every log untouched -/
theorem C02_off_loop (P : Prog M) (s s' : St M) (i : Nat) (hs : step P s (.cmdRun i) = some s') :
    s'.el = s.el ∧ s'.model = s.model ∧ s'.updLog = s.updLog ∧ s'.recvLog = s.recvLog ∧
    s'.dispAlive = s.dispAlive ∧ s'.ctxDone = s.ctxDone := by
  simp only [step] at hs
  split at hs <;> try (cases hs)
  split at hs <;> try (cases hs)
  simp

/-- a BatchMsg is never passed to Update (it is expanded), nor are quit and interrupt -/
theorem C02_batch_not_updated (P : Prog M) (senders : List Sender) (s : St M) (hr : Reachable P senders s) :
    ∀ m ∈ s.updLog, reachesUpdate m = true := by
  refine reachable_induct (fun s => ∀ m ∈ s.updLog, reachesUpdate m = true) (by simp [init]) ?_ hr
  intro s s' l _ ih hs
  cases l <;> simp only [step] at hs
  case process i =>
    split at hs <;> try (cases hs)
    split at hs <;> try (cases hs)
    split at hs <;> try (cases hs)
    intro m hm
    simp only [List.mem_append] at hm
    rcases hm with hm | hm
    · exact ih m hm
    · exact elOne_upd_reaches P _ _ m hm
  all_goals
    (repeat' split at hs)
    all_goals first
      | (injection hs with hs; subst hs; first | exact ih | simpa using ih)
      | (cases hs)

/-- which process a label belongs to, as far as sender `i` is concerned -/
def touches (i : Nat) : Label → Bool
  | .sendStart j => j == i
  | .process j => j == i
  | .sendAbort j => j == i
  | .cmdRun j => j == i
  | _ => false

/-- a command that blocks (even forever) delays nothing: whatever state its goroutine is in,
every step of every other process that is enabled stays enabled -/
theorem C02_blocked_noninterference (P : Prog M) (s : St M) (i : Nat) (sd sd' : Sender) (l : Label)
    (hi : s.senders[i]? = some sd) (hl : touches i l = false)
    (hs : (step P s l).isSome) :
    (step P { s with senders := s.senders.set i sd' } l).isSome := by
  have hlt := lt_length_of_getElem? hi
  have hne : ∀ j, (j == i) = false → (s.senders.set i sd')[j]? = s.senders[j]? := by
    intro j hj
    have : i ≠ j := by
      intro h; subst h; simp at hj
    exact List.getElem?_set_ne this
  cases l <;> simp only [touches] at hl <;> simp only [step] at hs ⊢
  case sendStart j =>
    rw [hne j hl]
    cases hj : s.senders[j]? with
    | none => simp [hj] at hs
    | some x => simp only [hj] at hs ⊢; split <;> simp_all
  case sendAbort j =>
    rw [hne j hl]
    cases hj : s.senders[j]? with
    | none => simp [hj] at hs
    | some x => simp only [hj] at hs ⊢; split <;> simp_all
  case cmdRun j =>
    rw [hne j hl]
    cases hj : s.senders[j]? with
    | none => simp [hj] at hs
    | some x => simp only [hj] at hs ⊢; split <;> simp_all
  case process j =>
    rw [hne j hl]
    cases hj : s.senders[j]? with
    | none => simp [hj] at hs
    | some x =>
      cases hel : s.el <;> simp only [hj, hel] at hs ⊢ <;> try (simp at hs)
      cases hm : x.script[x.pos]? with
      | none => simp [hm] at hs
      | some m => simp only [hm] at hs ⊢; split <;> simp_all
  all_goals (revert hs; (repeat' split) <;> simp_all)

/-- non-vacuity: Update returns a command whose result is a batch of two commands, one of which
returns nil; the dispatcher is handed three commands and starts three goroutines -/
example :
    let P : Prog Nat := { init := 0, initCmd := none, filter := none,
                          update := fun m x => (m + 1, if x = .user 0 0 then some 7 else none),
                          cmdResult := fun c => if c = 7 then some (.batch [some 1, none, some 2])
                                                else if c = 1 then some (.res 1) else none }
    ((runLabels P (init P [{ script := [.user 0 0] }])
      [.sendStart 0, .process 0, .cmdHandOver, .cmdRun 1, .sendStart 1, .process 1, .batchNext, .batchNext, .batchNext,
       .batchDone, .cmdRun 2, .cmdRun 3, .sendStart 2, .process 2, .cmdHandOver]).map
        (fun s => (s.spawned, s.handed, s.updLog, s.ran)))
      = some ([7, 1, 2], [some 7, some 1, none, some 2, none], [.user 0 0, .res 1], [1, 2, 3]) := by
  decide

/-! ### `Sequentially` (deprecated, public): nil commands and nil results are skipped there too

The composite command runs on ONE goroutine (the command goroutine the dispatcher gives it), so
"order" is program order; what is to be shown is which commands it calls and what it returns. -/

/-- the result is the message of the FIRST non-nil command whose result is not nil; nil if there is none -/
theorem C02_sequentially_result (cs : List (Option (Nat × Bool))) :
    (sequentiallyFn cs).1 = ((cs.filterMap id).find? (·.2)).map (·.1) := by
  induction cs with
  | nil => rfl
  | cons c cs ih =>
    match c with
    | none => simpa [sequentiallyFn] using ih
    | some (id, true) => simp [sequentiallyFn]
    | some (id, false) => simpa [sequentiallyFn] using ih

/-- the commands it calls: every non-nil command up to and including the first one with a non-nil
result, in the given order, each once - and none after it -/
theorem C02_sequentially_calls (cs : List (Option (Nat × Bool))) :
    (sequentiallyFn cs).2 =
      ((cs.filterMap id).takeWhile (fun c => !c.2)).map (·.1) ++
      (((cs.filterMap id).find? (·.2)).map (·.1)).toList := by
  induction cs with
  | nil => rfl
  | cons c cs ih =>
    match c with
    | none => simpa [sequentiallyFn] using ih
    | some (id, true) => simp [sequentiallyFn]
    | some (id, false) => simp [sequentiallyFn, ih]

/-- nil commands are skipped: removing them changes nothing -/
theorem C02_sequentially_skips_nil (cs : List (Option (Nat × Bool))) :
    sequentiallyFn cs = sequentiallyFn ((cs.filterMap id).map some) := by
  induction cs with
  | nil => rfl
  | cons c cs ih =>
    match c with
    | none => simpa [sequentiallyFn] using ih
    | some (id, true) => simp [sequentiallyFn]
    | some (id, false) => simp [sequentiallyFn, ih]

/-- all results nil (or no command at all): every non-nil command is called, the result is nil -/
theorem C02_sequentially_all_nil (cs : List (Option (Nat × Bool))) (h : ∀ c ∈ cs.filterMap id, c.2 = false) :
    sequentiallyFn cs = (none, (cs.filterMap id).map (·.1)) := by
  induction cs with
  | nil => rfl
  | cons c cs ih =>
    match c with
    | none => simpa [sequentiallyFn] using ih (by simpa using h)
    | some (id, true) => simp at h
    | some (id, false) =>
      have := ih (by intro c hc; exact h c (by simp [hc]))
      simp [sequentiallyFn, this]

example : sequentiallyFn [none, some (4, false), none, some (7, true), some (9, true), some (2, false)] =
    (some 7, [4, 7]) := by decide

end Tea.Props.C02
