import Tea.Proofs.Pipeline
/-
C01 — Run is a sequential, lossless, per-sender-ordered fold of Update over messages.

"While a program runs, Init, Update, View and the message filter are never
executed concurrently with one another, and every Update receives exactly the
model returned by the previous Update (Run returns the last one). Every user
message whose Send completed before the program began terminating is passed to
Update exactly once - never dropped, duplicated or invented - and messages sent
by any single goroutine reach Update in the order they were sent."

Theorems about the Pipeline LTS (Tea/Runtime/Pipeline.lean), for EVERY user
program `P` (any model type, any Update, any filter), ANY number of senders with
ANY scripts, and EVERY schedule (`Reachable` quantifies over all label
sequences). "Send completed" is `pos` (the sender's script index) having moved
past the message with the context not yet cancelled.
-/
namespace Tea.Props.C01
open Tea.Runtime

variable {M : Type}

/-- every Update receives exactly the model returned by the previous one: the current model
is the left fold of Update over the messages passed to Update so far, starting from the
initial model; this is also what Run returns (the loop variable) when the loop has exited -/
theorem C01_fold (P : Prog M) (senders : List Sender) (s : St M) (hr : Reachable P senders s) :
    s.model = s.updLog.foldl (fun m x => (P.update m x).1) P.init :=
  inv_fold hr

/-- the callbacks are executed by the event loop only, one message at a time: no step of any
other process (senders, dispatcher, command goroutines, Init hand-over, cancellation) changes
the model or the logs of filter and Update calls -/
theorem C01_only_the_loop_runs_callbacks (P : Prog M) (s s' : St M) (l : Label)
    (hl : ∀ i, l ≠ .process i) (hs : step P s l = some s') :
    s'.model = s.model ∧ s'.updLog = s.updLog ∧ s'.filterLog = s.filterLog := by
  cases l <;> simp only [step] at hs
  case process i => exact absurd rfl (hl i)
  all_goals
    (repeat' split at hs)
    all_goals first
      | (injection hs with hs; subst hs; simp)
      | (cases hs)

/-- per sender, what the loop received is a subsequence of what that sender handed to Send, in
the same order: nothing invented, nothing duplicated, nothing reordered -/
theorem C01_per_sender_order (P : Prog M) (senders : List Sender)
    (h0 : ∀ sd ∈ senders, sd.pos = 0 ∧ sd.pc = .idle)
    (s : St M) (hr : Reachable P senders s) (i : Nat) (sd : Sender) (hi : s.senders[i]? = some sd) :
    (recvOf i s.recvLog).Sublist (sd.script.take sd.pos) :=
  ((inv_senders h0 hr).1 i sd hi).2.2.1

/-- ... and as long as the program has not begun terminating, nothing is lost: every message
whose Send has returned was received by the loop, exactly once -/
theorem C01_no_loss_before_termination (P : Prog M) (senders : List Sender)
    (h0 : ∀ sd ∈ senders, sd.pos = 0 ∧ sd.pc = .idle)
    (s : St M) (hr : Reachable P senders s) (hctx : s.ctxDone = false)
    (i : Nat) (sd : Sender) (hi : s.senders[i]? = some sd) :
    recvOf i s.recvLog = sd.script.take sd.pos :=
  ((inv_senders h0 hr).1 i sd hi).2.2.2 hctx

/-- nothing arrives from a goroutine that does not exist -/
theorem C01_no_invention (P : Prog M) (senders : List Sender)
    (h0 : ∀ sd ∈ senders, sd.pos = 0 ∧ sd.pc = .idle)
    (s : St M) (hr : Reachable P senders s) (i : Nat) (hi : s.senders.length ≤ i) :
    recvOf i s.recvLog = [] :=
  (inv_senders h0 hr).2 i hi

/-- every received message is passed to Update exactly once, in the order received (without a
filter): the Update log is the received log minus the messages the runtime consumes itself
(quit, interrupt, batch). With `C01_no_loss_before_termination` this is "exactly once,
per-sender order" at Update. -/
theorem C01_received_reach_update (P : Prog M) (senders : List Sender) (hf : P.filter = none)
    (s : St M) (hr : Reachable P senders s) :
    s.updLog = (s.recvLog.map (·.2)).filter reachesUpdate := by
  have h := inv_replay hr
  rw [← h.2.1]
  exact replay_nofilter_upd P hf _

/-- non-vacuity: two senders, a schedule that interleaves them; the invariants' premises hold
and the Update log is the interleaving chosen by the schedule -/
example :
    let P : Prog Nat := { init := 0, initCmd := none, update := fun m _ => (m + 1, none),
                          cmdResult := fun _ => none, filter := none }
    let snd : List Sender := [{ script := [.user 0 0, .user 0 1] }, { script := [.user 1 0] }]
    ((runLabels P (init P snd)
      [.sendStart 0, .sendStart 1, .process 1, .cmdHandOver, .process 0, .cmdHandOver,
       .sendStart 0, .process 0, .cmdHandOver]).map (fun s => (s.model, s.updLog)))
      = some (3, [.user 1 0, .user 0 0, .user 0 1]) := by
  decide

end Tea.Props.C01
