import Tea.Proofs.Inline
import Tea.Proofs.AltRoundtrip
import Tea.Proofs.InlineHistory
import Tea.Proofs.InlineClear
/-
C06 — After every render the terminal shows exactly the latest view.

"After each render, the terminal displays exactly the most recent view and
nothing else from earlier views: in full-window (alt screen) mode its n lines
occupy the first n rows and all other rows are blank; inline, the n rows ending
at the cursor row hold the view, nothing stale remains below it, rows above it
are untouched and the cursor rests at the first column. Views taller than the
terminal show their last `height` lines, lines wider than the terminal are cut
at `width` columns and never wrap, and an empty view clears the previous one -
regardless of which lines changed between consecutive views."

The theorems connect the renderer model (`Tea/Render/Model.lean`: what `flush`
writes) with the terminal model (`Tea/VT/Term.lean`: what a terminal does with
it).  Vocabulary (defined in `Tea/Proofs/Paint.lean`, `Tea/Proofs/AltScreen.lean`):

* `b.row w R`     — the cells of tape row `R` in columns `0 .. w-1`;
* `Ansi.visible l` — what a terminal shows of a line `l`: its bytes without the escape sequences
  (`ESC x`, `ESC [ … final`; styling) it contains (`Tea/Prelude/Ansi.lean`); the cells a line
  takes are `lineWidth l = (Ansi.visible l).length`;
* `padLine w v`   — `v` cut at `w` bytes, then padded with blanks (32) to `w`; a row that shows
  line `l` is `padLine w (Ansi.visible l)`: the visible part of `l`, cut at the width and padded;
* window row `i` of a buffer `b` is tape row `b.top + i`;
* `AltInv r t`    — renderer `r` and terminal `t` are both on the alt screen with the
  same size `w ≥ 1`, `h ≥ 1`; window rows `≥ r.altLinesRendered` are blank; if the line
  cache `r.lastLines` is valid it has `altLinesRendered` lines and window row `i` shows
  (the visible part of) cached line `i`; a non-empty `lastRender` has the cache that `flush`
  computed for it; and every cell of the alt buffer outside the window rectangle (tape rows
  `≥ top + h`, columns `≥ w`) is blank — nothing is ever written there, which is what makes
  a window that GROWS show blank cells (`Term.resize` does not reflow);
* `runT r t ops`  — run a history feeding the terminal (`Tea/Proofs/AltScreen.lean`): a `.size w h`
  step is the terminal being resized (`Term.resize t w h`: the active buffer is cut to the new
  window rectangle, the cursor clamped) while the renderer handles the WindowSizeMsg (new
  size, cache invalidated, nothing written); for every other step the terminal receives what
  the renderer writes; `altStableR` = `altStable` plus resizes to at least 1x1.

* `viewTop r t`  — inline: the tape row of the first view line, `cr + 1 - max linesRendered 1`;
* `InlineInv r t` — renderer `r` and terminal `t` are both on the main screen with the same
  size; the cursor is in column 0 (no pending wrap) of the last of the `max linesRendered 1`
  view rows, which lie inside the window; window rows below the cursor are blank; a valid line
  cache has `linesRendered` lines and view row `i` shows (the visible part of) cached line `i`;
  and a non-empty `lastRender` has the cache that `flush` computed for it.

* inline histories (`Tea/Proofs/InlineHistory.lean`, `Tea/Proofs/InlineClear.lean`):
  `J r` — the queue invariant of a run, `r.queued ≠ [] → r.lastRender = []` (a pending printed line
  forces the next flush of a pending view to paint); `inlineStable` — every step but `.size`,
  `.enterAlt`, `.clearScreen`, `.stop`, `.kill`; `inlineStableC` — the same plus `.clearScreen`;
  `ClearedInv r t` — the state between a ClearScreen while inline and the next painting flush: main
  screen, same size, every window row blank, cursor at the top left of the window without pending
  wrap, both caches invalid (nothing is said about `linesRendered`);
  `InlineOrCleared r t` — `(InlineInv r t ∧ J r) ∨ ClearedInv r t`.

Rows are rows of the unbounded tape of `Tea/VT/Term.lean`: scrolling moves the window
(`top`), not the content, so "row R is unchanged" also covers rows scrolled out of the window.

Printable and styled text: the model's `.text s` runs the escape-sequence parser of
`Tea/Prelude/Ansi.lean` over `s` and prints, with `putChar`, exactly the bytes of
`Ansi.visible s`; the bytes of escape sequences (SGR styling) take no cell, and the
renderer measures and cuts lines with the same metric (`lineWidth`, `truncateLine`: all
escape bytes are kept, printing bytes beyond the width are dropped).  The theorems hold
for ALL byte strings, well-formed or not: what a row shows of a line `l` is
`Ansi.visible l`, cut at the width and padded.  They describe a real terminal when every
line consists of printable ASCII bytes and complete CSI sequences (`ESC [`, parameter and
intermediate bytes, a final byte `0x40 .. 0x7e`); plain `Printable` lines, which are their
own visible part (`Ansi.visible_of_plain`), are the special case without sequences.  That
is where the terminal model was validated.  The hypothesis is therefore not needed by (and
not included in) the statements.

Only property theorems live here; helper lemmas are in `Tea/Proofs`.
-/
namespace Tea.Props.C06
open Tea Tea.VT Tea.Render

/-- every byte of every line is a printable ASCII byte (the domain in which one byte is one
cell and `.text` is nothing but `putChar`s on a real terminal; such a line is its own visible
part) -/
def Printable (ls : List Line) : Prop := ∀ l ∈ ls, ∀ b ∈ l, 32 ≤ b ∧ b < 127

/-- **Level 2: a full repaint on the alt screen.**  Cache invalid (after a resize, a repaint
request, `clearScreen`, entering the alt screen), renderer and terminal on the alt screen with
the same size: after the flush the first `n` window rows are exactly the `n` lines of the frame
(what is visible of them: escape sequences take no cell), each cut at the width and padded with
blanks; the window rows below are blank if the previous
frame was taller (`altLinesRendered > n`: ED0) and otherwise untouched; nothing scrolled
(`top` unchanged), the main screen is untouched, and the cursor rests at the start of the last
view row. -/
theorem C06_alt_repaint (r : RState) (t : Term) (halt : r.altActive = true) (hon : t.onAlt = true)
    (hw : r.width = t.w) (hh : r.height = t.h) (hw1 : 1 ≤ t.w) (hh1 : 1 ≤ t.h)
    (hbuf : r.buf ≠ []) (hll : r.lastLines = none) (hlr : r.lastRender = [])
    (t' : Term) (ht' : t' = applyOps t (flush r).2) :
    t'.onAlt = true ∧ t'.w = t.w ∧ t'.h = t.h ∧ t'.main = t.main ∧ t'.alt.top = t.alt.top ∧
    1 ≤ (frameLines r).length ∧ (frameLines r).length ≤ t.h ∧
    (∀ i l, (frameLines r)[i]? = some l →
      t'.alt.row t.w (t.alt.top + i) = padLine t.w (Ansi.visible l)) ∧
    (∀ i, (frameLines r).length ≤ i → i < t.h →
      (r.altLinesRendered > (frameLines r).length →
        t'.alt.row t.w (t.alt.top + i) = List.replicate t.w 32) ∧
      (¬ r.altLinesRendered > (frameLines r).length →
        t'.alt.row t.w (t.alt.top + i) = t.alt.row t.w (t.alt.top + i))) ∧
    t'.alt.cr = t.alt.top + (frameLines r).length - 1 ∧ t'.alt.cc = 0 ∧ t'.alt.pw = false := by
  have hne : (r.buf.isEmpty || r.buf == r.lastRender) = false := by
    rw [hlr]; cases hb : r.buf with
    | nil => exact absurd hb hbuf
    | cons _ _ => rfl
  obtain ⟨s1, s2, s3, s4, s5, s6, s7, s8, s9, _, s11, s12⟩ := alt_flush_term r t halt hon hw hh hw1 hh1
    hne (by intro j l _ hs; rw [sameAsLast_none r j l hll] at hs; cases hs) t' ht'
  refine ⟨s1, s2, s3, s4, s5, by rw [frameLines_eq]; exact frameOf_length_pos _ _,
    by rw [frameLines_eq, ← hh]; exact frameOf_length_le _ _ (by omega), ?_, ?_, s6, s7, s8⟩
  · intro i l hi
    exact (rowShows_iff_row _ _ _ _).1 (s9 i l hi)
  · intro i hi hih
    constructor
    · intro hsh
      exact (rowBlank_iff_row _ _ _).1 (s12 hsh _ (by omega) (by omega))
    · intro hsh
      simp only [Buf.row]
      apply List.map_congr_left
      intro c _
      exact s11 hsh _ (by omega) c

/-- **Clipping.**  The frame a flush paints is the last `height` lines of the view (all of
them when there are at most `height`), so it has between 1 and `height` lines; and what a row
shows of a line is the first `width` bytes of its visible part (`padLine`): a painted row is
exactly `width` cells, never more, and it is the same row whether the line or the line cut by
the renderer (`truncateLine`, which keeps every escape sequence and takes
`min width (lineWidth l)` cells) is shown — together with "`top` unchanged / rows below
untouched" in the flush theorems this is "wide lines are cut and never wrap". -/
theorem C06_clip (r : RState) (hh : 1 ≤ r.height) :
    frameLines r = (splitLines r.buf).drop ((splitLines r.buf).length - r.height) ∧
    1 ≤ (frameLines r).length ∧ (frameLines r).length ≤ r.height ∧
    ∀ (w : Nat) (l : Line), (padLine w (Ansi.visible l)).length = w ∧
      padLine w (Ansi.visible l) = padLine w (Ansi.visible (truncateLine w l)) ∧
      lineWidth (truncateLine w l) = min w (lineWidth l) ∧
      (padLine w (Ansi.visible l)).take (min w (lineWidth l)) = (Ansi.visible l).take w := by
  refine ⟨frameOf_eq_drop _ _ hh, frameOf_length_pos _ _, frameOf_length_le _ _ hh, ?_⟩
  intro w l
  refine ⟨padLine_length w _, ?_, Ansi.width_truncate w l, padLine_take_min w _⟩
  rw [visible_truncateLine, padLine_take]

/-- **Level 3: every alt-screen render shows exactly the latest view, whatever changed.**
If renderer and terminal satisfy `AltInv` (see the header), then after `write s` and `flush`
— whether the flush skips unchanged lines, repaints everything, shrinks the view (ED0) or does
nothing at all because the view is byte-identical — the invariant holds again and the screen is
exactly the new frame `v`: window row `i < n` is (the visible part of) line `i` of `v` cut at the
width and padded with blanks, every window row `n ≤ i < h` is blank; nothing scrolled, the main screen is
untouched; and when something was written the cursor rests at the start of the last view row.
An empty `s` is the one-blank view, so it clears the previous view. -/
theorem C06_alt_flush (r : RState) (t : Term) (hinv : AltInv r t) (s : Bytes)
    (r' : RState) (t' : Term) (hr' : r' = (flush (write r s)).1)
    (ht' : t' = applyOps t (flush (write r s)).2) :
    AltInv r' t' ∧ t'.alt.top = t.alt.top ∧ t'.main = t.main ∧ t'.w = t.w ∧ t'.h = t.h ∧
    1 ≤ (frameLines (write r s)).length ∧ (frameLines (write r s)).length ≤ t.h ∧
    (∀ i l, (frameLines (write r s))[i]? = some l →
      t'.alt.row t.w (t.alt.top + i) = padLine t.w (Ansi.visible l)) ∧
    (∀ i, (frameLines (write r s)).length ≤ i → i < t.h →
      t'.alt.row t.w (t.alt.top + i) = List.replicate t.w 32) ∧
    ((write r s).buf ≠ r.lastRender →
      t'.alt.cr = t.alt.top + (frameLines (write r s)).length - 1 ∧ t'.alt.cc = 0 ∧
      t'.alt.pw = false) := by
  obtain ⟨a1, a2, a3, a4, a5, a6, a7, a8⟩ := alt_flush_inv (write r s) t (hinv.write s) (write_buf_ne r s)
  subst hr' ht'
  obtain ⟨b1, b2, b3⟩ := a1.screen a6
  rw [a4, a2] at b2
  rw [a4, a2, a5] at b3
  refine ⟨a1, a2, a3, a4, a5, by rw [frameLines_eq]; exact frameOf_length_pos _ _, ?_, b2, b3, a8⟩
  rw [frameLines_eq]
  have := hinv.height
  rw [← this]
  exact frameOf_length_le _ _ (by have := hinv.hpos; show 1 ≤ r.height; omega)

/-- **The invariant is established** by entering the alt screen (DECSET 1049, ED2, HOME, cursor
mode) from the main screen, for any renderer state and any terminal of the same size. -/
theorem C06_alt_enter (r : RState) (t : Term) (ha : r.altActive = false) (hon : t.onAlt = false)
    (hw : r.width = t.w) (hh : r.height = t.h) (hw1 : 1 ≤ t.w) (hh1 : 1 ≤ t.h) :
    AltInv (enterAlt r).1 (applyOps t (enterAlt r).2) :=
  enterAlt_inv r t ha hon hw hh hw1 hh1

/-- **The invariant is kept by every renderer step** that stays on the alt screen at the same
size (`altStable`: everything but `size`, `exitAlt`, `stop`, `kill`): writes, flushes (painting,
skipping or no-ops), repaint requests, `clearScreen`, cursor / mouse / paste / focus modes, the
title and (ignored on the alt screen) printed lines — for any history of such steps, with the
terminal receiving exactly what the steps write. -/
theorem C06_alt_history (ops : List ROp) : ∀ (r : RState) (t : Term), AltInv r t →
    (∀ o ∈ ops, altStable o = true) →
    AltInv (run r ops).1 ((run r ops).2.foldl applyOps t) := by
  induction ops with
  | nil => intro r t h _; exact h
  | cons o os ih =>
    intro r t h hs
    have h1 := alt_step_inv r t h o (hs o (by simp))
    have h2 := ih (step r o).1 (applyOps t (step r o).2) h1 (fun o' ho' => hs o' (by simp [ho']))
    simpa [run] using h2

/-- Consequently, after ANY such history on the alt screen, the next `write s; flush` leaves the
window showing exactly the frame of `s` (rows `< n`: the visible part of each line, cut and
padded) and blanks (rows `n .. h-1`). -/
theorem C06_alt_always (r : RState) (t : Term) (hinv : AltInv r t) (ops : List ROp)
    (hs : ∀ o ∈ ops, altStable o = true) (s : Bytes)
    (r1 : RState) (t1 t' : Term) (hr1 : r1 = (run r ops).1)
    (ht1 : t1 = (run r ops).2.foldl applyOps t)
    (ht' : t' = applyOps t1 (flush (write r1 s)).2) :
    (∀ i l, (frameLines (write r1 s))[i]? = some l →
      t'.alt.row t'.w (t'.alt.top + i) = padLine t'.w (Ansi.visible l)) ∧
    (∀ i, (frameLines (write r1 s)).length ≤ i → i < t'.h →
      t'.alt.row t'.w (t'.alt.top + i) = List.replicate t'.w 32) := by
  have h1 : AltInv r1 t1 := by rw [hr1, ht1]; exact C06_alt_history ops r t hinv hs
  obtain ⟨_, a2, _, a4, a5, _, _, a8, a9, _⟩ := C06_alt_flush r1 t1 h1 s _ t' rfl ht'
  rw [a2, a4, a5]
  exact ⟨a8, a9⟩

/-- **A resize on the alt screen keeps the invariant.**  The terminal is resized to `w x h`
(`Term.resize`: the alt buffer is cut to the new window rectangle, rows that fall below the new
bottom are dropped, no reflow) and the renderer handles the `WindowSizeMsg` (`.size w h`: it adopts
the size, invalidates its cache and writes nothing).  `AltInv` holds again at the new size: in
particular the rows from `altLinesRendered` on of the NEW window are blank — also those that a
growing window brings in, because nothing was ever written outside the old rectangle. -/
theorem C06_alt_resize (r : RState) (t : Term) (hinv : AltInv r t) (w h : Nat) (hw : 1 ≤ w)
    (hh : 1 ≤ h) :
    AltInv (step r (.size w h)).1 (resize t w h) ∧ (step r (.size w h)).2 = [] ∧
    (resize t w h).w = w ∧ (resize t w h).h = h ∧ (resize t w h).main = t.main ∧
    (resize t w h).alt.top = t.alt.top := by
  obtain ⟨a1, a2⟩ := alt_resize_inv r t hinv w h hw hh
  obtain ⟨_, b2, b3, b4, b5, _⟩ := resize_alt t w h hinv.onAlt
  exact ⟨a1, a2, b2, b3, b4, b5⟩

/-- **The invariant is kept by every history on the alt screen, RESIZES included**
(`altStableR`: the steps of `altStable` and `.size w h` with `1 ≤ w`, `1 ≤ h`), the terminal being
resized at each `.size` step and receiving what the renderer writes at every other step
(`runT`). -/
theorem C06_alt_history_resize (ops : List ROp) : ∀ (r : RState) (t : Term), AltInv r t →
    (∀ o ∈ ops, altStableR o = true) →
    AltInv (runT r t ops).1 (runT r t ops).2 := by
  induction ops with
  | nil => intro r t h _; exact h
  | cons o os ih =>
    intro r t h hs
    have h1 := alt_stepT_inv r t h o (hs o (by simp))
    exact ih _ _ h1 (fun o' ho' => hs o' (by simp [ho']))

/-- Consequently, after ANY history on the alt screen — views, flushes, repaints, ClearScreen,
modes, prints, RESIZES — the next `write s; flush` leaves the window showing exactly the frame
of `s` at the size after the last resize (`t'.w`, `t'.h`, which the flush does not change): rows
`< n` are the visible part of each line, cut at `t'.w` and padded; rows `n .. t'.h - 1` are blank. -/
theorem C06_alt_always_resize (r : RState) (t : Term) (hinv : AltInv r t) (ops : List ROp)
    (hs : ∀ o ∈ ops, altStableR o = true) (s : Bytes)
    (r1 : RState) (t1 t' : Term) (hr1 : r1 = (runT r t ops).1)
    (ht1 : t1 = (runT r t ops).2)
    (ht' : t' = applyOps t1 (flush (write r1 s)).2) :
    (∀ i l, (frameLines (write r1 s))[i]? = some l →
      t'.alt.row t'.w (t'.alt.top + i) = padLine t'.w (Ansi.visible l)) ∧
    (∀ i, (frameLines (write r1 s)).length ≤ i → i < t'.h →
      t'.alt.row t'.w (t'.alt.top + i) = List.replicate t'.w 32) ∧
    t'.w = t1.w ∧ t'.h = t1.h ∧
    1 ≤ (frameLines (write r1 s)).length ∧ (frameLines (write r1 s)).length ≤ t'.h := by
  have h1 : AltInv r1 t1 := by rw [hr1, ht1]; exact C06_alt_history_resize ops r t hinv hs
  obtain ⟨_, a2, _, a4, a5, a6, a7, a8, a9, _⟩ := C06_alt_flush r1 t1 h1 s _ t' rfl ht'
  rw [a2, a4, a5]
  exact ⟨a8, a9, rfl, rfl, a6, a7⟩

/-- **Level 4: every inline render without printed lines shows exactly the latest view.**
If renderer and terminal satisfy `InlineInv` (see the header) and no printed lines are queued,
then after `write s` and `flush` — skipping, repainting, shrinking (ED0), growing past the
bottom of the window (LF scrolls) or doing nothing — the invariant holds again, and:
the view starts at the same tape row `R0 = viewTop r t` as before and its `n` rows end at the
cursor row; the cursor rests in column 0 with no pending wrap; view row `i` is (the visible part
of) line `i` of the frame cut at the width and padded with blanks; every window row below the cursor is blank
(nothing stale); every row above `R0` is untouched; the window scrolled by exactly what the
view needs (`top' = max top (R0 + n - h)`); the alt screen is untouched.
(Flushes that also print queued lines: `Tea.Props.C14.C14_flush`, which has the same
conclusions with the view moved down by the rows of the printed lines.) -/
theorem C06_inline_flush (r : RState) (t : Term) (hinv : InlineInv r t) (hq : r.queued = [])
    (s : Bytes) (r' : RState) (t' : Term) (hr' : r' = (flush (write r s)).1)
    (ht' : t' = applyOps t (flush (write r s)).2) :
    InlineInv r' t' ∧ r'.queued = [] ∧ t'.alt = t.alt ∧ t'.w = t.w ∧ t'.h = t.h ∧
    t'.main.cr + 1 = viewTop r t + (frameLines (write r s)).length ∧
    t'.main.cc = 0 ∧ t'.main.pw = false ∧
    (∀ i l, (frameLines (write r s))[i]? = some l →
      t'.main.row t.w (viewTop r t + i) = padLine t.w (Ansi.visible l)) ∧
    (∀ ρ, t'.main.cr < ρ → ρ < t'.main.top + t.h → t'.main.row t.w ρ = List.replicate t.w 32) ∧
    (∀ ρ, ρ < viewTop r t → ∀ c, t'.main.cells ρ c = t.main.cells ρ c) ∧
    t'.main.top = max t.main.top (viewTop r t + (frameLines (write r s)).length - t.h) := by
  obtain ⟨a1, a2, a3, a4, a5, a6, a7, a8, a9, a10⟩ :=
    inline_flush_inv (write r s) t (hinv.write s) hq (write_buf_ne r s)
  subst hr' ht'
  obtain ⟨_, b2, b3⟩ := a1.screen a9
  rw [a6, a3] at b2
  rw [a6, a7] at b3
  have hn1 : 1 ≤ (frameLines (write r s)).length := by rw [frameLines_eq]; exact frameOf_length_pos _ _
  have hvt : viewTop (write r s) t = viewTop r t := rfl
  rw [hvt] at a3 a4 a8 b2
  refine ⟨a1, a2, a5, a6, a7, ?_, a1.col.1, a1.col.2, b2, b3, a8, a4⟩
  have h1 := a1.inside.1
  rw [a10] at h1
  unfold viewTop at a3 ⊢
  rw [a10] at a3
  omega

/-- **Level 5: the inline invariant is kept by every inline history.**  `J r` is the queue
invariant of a run (`Tea/Proofs/InlineHistory.lean`): `r.queued ≠ [] → r.lastRender = []` — a
pending printed line always forces the next flush of a pending view to paint (`printLine` clears
`lastRender`, a flush that paints empties the queue); it holds initially and is kept by every
renderer step while inline (`J_step`).  `inlineStable` = every step but a resize, entering the alt
screen, ClearScreen (for which see `C06_inline_history_clear`) and shutting down (`stop`, `kill`:
C07), i.e. writes, flushes (painting, skipping, printing queued lines, or no-ops), repaint
requests, ExitAltScreen (a no-op inline), cursor / mouse / paste / focus modes, printed lines and
the title.  One step: `inline_step_inv`; for any history of such steps, with the terminal
receiving exactly what the steps write: -/
theorem C06_inline_history (ops : List ROp) : ∀ (r : RState) (t : Term), InlineInv r t → J r →
    (∀ o ∈ ops, inlineStable o = true) →
    InlineInv (run r ops).1 ((run r ops).2.foldl applyOps t) ∧ J (run r ops).1 := by
  induction ops with
  | nil => intro r t h hJ _; exact ⟨h, hJ⟩
  | cons o os ih =>
    intro r t h hJ hs
    obtain ⟨h1, hJ1⟩ := inline_step_inv r t h hJ o (hs o (by simp))
    have h2 := ih (step r o).1 (applyOps t (step r o).2) h1 hJ1 (fun o' ho' => hs o' (by simp [ho']))
    simpa [run] using h2

/-- Consequently, after ANY such inline history — views, flushes, repaints, modes, printed lines,
in any order — the next `write s; flush` leaves, with `n` the number of lines of the frame of `s`
(`1 ≤ n ≤ h`) and `(r1, t1)` renderer and terminal after the history:
* the `n` rows ending at the cursor row, all inside the window, are exactly the frame of `s`: row
  `cr + 1 - n + i` is (the visible part of) line `i`, cut at the width and padded with blanks;
* every window row below the cursor is blank (nothing stale);
* the cursor rests in column 0 without a pending wrap;
* every row above the row `viewTop r1 t1` where the view started is untouched, the lines that
  were still queued are printed from that row on, once and in order (`qrows`: wrapped at the
  width), and the view is directly below them;
* the invariants hold again, nothing is queued, the size is unchanged. -/
theorem C06_inline_always (r : RState) (t : Term) (hinv : InlineInv r t) (hJ : J r)
    (ops : List ROp) (hs : ∀ o ∈ ops, inlineStable o = true) (s : Bytes)
    (r1 r' : RState) (t1 t' : Term) (hr1 : r1 = (run r ops).1)
    (ht1 : t1 = (run r ops).2.foldl applyOps t)
    (hr' : r' = (flush (write r1 s)).1) (ht' : t' = applyOps t1 (flush (write r1 s)).2) :
    InlineInv r' t' ∧ J r' ∧ r'.queued = [] ∧ t'.w = t.w ∧ t'.h = t.h ∧
    1 ≤ (frameLines (write r1 s)).length ∧ (frameLines (write r1 s)).length ≤ t'.h ∧
    t'.main.top + (frameLines (write r1 s)).length ≤ t'.main.cr + 1 ∧
    t'.main.cr < t'.main.top + t'.h ∧
    (∀ i l, (frameLines (write r1 s))[i]? = some l →
      t'.main.row t'.w (t'.main.cr + 1 - (frameLines (write r1 s)).length + i) =
        padLine t'.w (Ansi.visible l)) ∧
    (∀ ρ, t'.main.cr < ρ → ρ < t'.main.top + t'.h → t'.main.row t'.w ρ = List.replicate t'.w 32) ∧
    t'.main.cc = 0 ∧ t'.main.pw = false ∧
    (∀ ρ, ρ < viewTop r1 t1 → ∀ c, t'.main.cells ρ c = t1.main.cells ρ c) ∧
    (∀ j l, (qrows t'.w r1.queued)[j]? = some l →
      t'.main.row t'.w (viewTop r1 t1 + j) = padLine t'.w l) ∧
    t'.main.cr + 1 =
      viewTop r1 t1 + (qrows t'.w r1.queued).length + (frameLines (write r1 s)).length := by
  obtain ⟨h1, hJ1, tr⟩ := inline_run_trace ops r t hinv hJ hs
  rw [← hr1, ← ht1] at h1 tr
  rw [← hr1] at hJ1
  obtain ⟨a1, a2, a3, _, _, a6, a7, a8, a9, a10, a11⟩ :=
    inline_flushJ_inv (write r1 s) t1 (h1.write s) hJ1 (write_buf_ne r1 s)
  rw [← hr', ← ht'] at a1 a3
  rw [← hr'] at a2 a10 a11
  rw [← ht'] at a6 a7 a8 a9
  obtain ⟨_, b2, b3⟩ := a1.screen a10
  have hn1 : 1 ≤ (frameLines (write r1 s)).length := by
    rw [frameLines_eq]; exact frameOf_length_pos _ _
  have hvt : viewTop r' t' = t'.main.cr + 1 - (frameLines (write r1 s)).length := by
    unfold viewTop; rw [a11, Nat.max_eq_left hn1]
  have hin := a1.inside
  rw [a11, Nat.max_eq_left hn1] at hin
  have hv1 : viewTop (write r1 s) t1 = viewTop r1 t1 := rfl
  have hq1 : (write r1 s).queued = r1.queued := rfl
  rw [hv1, hq1] at a3 a9
  rw [hv1] at a8
  rw [hvt] at b2 a3
  rw [← a6] at a3 a9
  refine ⟨a1, fun h => absurd a2 h, a2, a6.trans tr.w, a7.trans tr.h, hn1, ?_, hin.1, hin.2, b2, b3,
    a1.col.1, a1.col.2, a8, ?_, by omega⟩
  · omega
  · intro j l hj
    exact (rowShows_iff_row _ _ _ _).1 (a9 j l hj)

/-! ### ClearScreen while inline -/

/-- **ClearScreen while inline.**  The renderer writes ED2, HOME and invalidates its caches, but
keeps `linesRendered`: the window is blank and the cursor is in its top left corner, so the
renderer's belief that `linesRendered` view rows end at the cursor row is wrong until the next
painting flush (`InlineInv` does not hold in between; `ClearedInv` does: main screen, same size,
every window row blank, cursor at the top left without pending wrap, both caches invalid).
Nothing above the window is touched, the window does not move, the queue of printed lines, the
size and the alt screen are what they were. -/
theorem C06_clearScreen_inline (r : RState) (t : Term) (hinv : InlineInv r t)
    (r' : RState) (t' : Term) (hr' : r' = (step r .clearScreen).1)
    (ht' : t' = applyOps t (step r .clearScreen).2) :
    ClearedInv r' t' ∧ r'.queued = r.queued ∧ r'.linesRendered = r.linesRendered ∧
    t'.w = t.w ∧ t'.h = t.h ∧ t'.alt = t.alt ∧ t'.main.top = t.main.top ∧
    (∀ ρ, ρ < t.main.top → ∀ c, t'.main.cells ρ c = t.main.cells ρ c) := by
  subst hr' ht'
  exact clearScreen_cleared r t hinv.alt hinv.onAlt hinv.width hinv.height hinv.wpos hinv.hpos

/-- **The first render after a ClearScreen** (nothing queued).  From `ClearedInv r t`, after
`write s; flush` — the flush always paints, every line (the caches are invalid); its CursorUp by
`linesRendered - 1` is clamped by the terminal at the top row of the window —: the inline
invariant holds again; the view's `n` rows are window rows `0 .. n-1` (`viewTop = top`; the window
does not scroll), each (the visible part of) its frame line cut at the width and padded; window
rows `n .. h-1` are blank; the cursor is at the start of the last view row; rows above the window
are untouched.  (With printed lines queued they come first, from the top row of the window on:
`Tea.Props.C14.C14_flush_after_clear`.) -/
theorem C06_inline_after_clear (r : RState) (t : Term) (hinv : ClearedInv r t) (hq : r.queued = [])
    (s : Bytes) (r' : RState) (t' : Term) (hr' : r' = (flush (write r s)).1)
    (ht' : t' = applyOps t (flush (write r s)).2) :
    InlineInv r' t' ∧ J r' ∧ r'.queued = [] ∧ t'.alt = t.alt ∧ t'.w = t.w ∧ t'.h = t.h ∧
    viewTop r' t' = t.main.top ∧ t'.main.top = t.main.top ∧
    1 ≤ (frameLines (write r s)).length ∧ (frameLines (write r s)).length ≤ t.h ∧
    t'.main.cr + 1 = t.main.top + (frameLines (write r s)).length ∧
    t'.main.cc = 0 ∧ t'.main.pw = false ∧
    (∀ i l, (frameLines (write r s))[i]? = some l →
      t'.main.row t.w (t.main.top + i) = padLine t.w (Ansi.visible l)) ∧
    (∀ i, (frameLines (write r s)).length ≤ i → i < t.h →
      t'.main.row t.w (t.main.top + i) = List.replicate t.w 32) ∧
    (∀ ρ, ρ < t.main.top → ∀ c, t'.main.cells ρ c = t.main.cells ρ c) := by
  obtain ⟨a1, a2, a3, a4, a5, a6, a7, a8, _, a10, a11⟩ :=
    cleared_flush_inv (write r s) t (hinv.congr rfl rfl rfl rfl rfl rfl rfl rfl rfl)
      (write_buf_ne r s)
  subst hr' ht'
  have hq0 : (qrows t.w (write r s).queued).length = 0 := by
    show (qrows t.w r.queued).length = 0
    rw [hq]; rfl
  rw [hq0, Nat.add_zero] at a3 a4
  have hn1 : 1 ≤ (frameLines (write r s)).length := by rw [frameLines_eq]; exact frameOf_length_pos _ _
  obtain ⟨v1, v2, _, _, _, v6, v7⟩ := a1.view a10 hn1
  obtain ⟨_, b2, b3⟩ := a1.screen a10
  rw [a6, a3] at b2
  rw [a6, a7] at b3
  rw [a7] at v1
  have htop : (applyOps t (flush (write r s)).2).main.top = t.main.top := by rw [a4]; omega
  have hcr : (applyOps t (flush (write r s)).2).main.cr + 1 =
      t.main.top + (frameLines (write r s)).length := by
    have := a3
    unfold viewTop at this
    rw [a11, Nat.max_eq_left hn1] at this
    omega
  refine ⟨a1, fun h => absurd a2 h, a2, a5, a6, a7, a3, htop, hn1, v1, hcr, v6, v7, b2, ?_, a8⟩
  intro i hi hih
  exact b3 _ (by omega) (by rw [htop]; omega)

/-- **The steps that keep `ClearedInv`**: between a ClearScreen and the next flush of a pending
view, every `inlineStable` step other than that flush — writes, flushes without a pending view,
repaint requests, ExitAltScreen, modes, printed lines (they are queued), the title — and further
ClearScreens leave renderer and terminal in `ClearedInv`. -/
theorem C06_cleared_step (r : RState) (t : Term) (h : ClearedInv r t) (o : ROp)
    (ho : inlineStableC o = true) (hf : o = .flush → r.buf = []) :
    ClearedInv (step r o).1 (applyOps t (step r o).2) :=
  cleared_step_inv r t h o ho hf

/-- **Inline histories with ClearScreen.**  `InlineOrCleared r t` is `(InlineInv r t ∧ J r) ∨
ClearedInv r t`; `inlineStableC` is `inlineStable` plus `.clearScreen`.  The invariant is kept by
every such history: a ClearScreen leads to `ClearedInv` (from either state), the next flush of a
pending view leads back to `InlineInv` — with or without printed lines queued, no side condition
on the queue is needed —, every other step keeps the state it is in. -/
theorem C06_inline_history_clear (ops : List ROp) : ∀ (r : RState) (t : Term),
    InlineOrCleared r t → (∀ o ∈ ops, inlineStableC o = true) →
    InlineOrCleared (run r ops).1 ((run r ops).2.foldl applyOps t) :=
  inlineC_run_inv ops

/-- Consequently, after ANY inline history — views, flushes, repaints, modes, printed lines,
ClearScreens, in any order — the next `write s; flush` leaves: the `n` rows ending at the cursor
row, all inside the window, are exactly the frame of `s` (visible parts, cut at the width,
padded); every window row below the cursor is blank; the cursor rests in column 0 without a
pending wrap; the inline invariants hold, nothing is queued and the size is what it always was. -/
theorem C06_inline_always_clear (r : RState) (t : Term) (h : InlineOrCleared r t)
    (ops : List ROp) (hs : ∀ o ∈ ops, inlineStableC o = true) (s : Bytes)
    (r1 r' : RState) (t1 t' : Term) (hr1 : r1 = (run r ops).1)
    (ht1 : t1 = (run r ops).2.foldl applyOps t)
    (hr' : r' = (flush (write r1 s)).1) (ht' : t' = applyOps t1 (flush (write r1 s)).2) :
    InlineInv r' t' ∧ J r' ∧ r'.queued = [] ∧ t'.w = t.w ∧ t'.h = t.h ∧
    1 ≤ (frameLines (write r1 s)).length ∧ (frameLines (write r1 s)).length ≤ t'.h ∧
    t'.main.top + (frameLines (write r1 s)).length ≤ t'.main.cr + 1 ∧
    t'.main.cr < t'.main.top + t'.h ∧
    (∀ i l, (frameLines (write r1 s))[i]? = some l →
      t'.main.row t'.w (t'.main.cr + 1 - (frameLines (write r1 s)).length + i) =
        padLine t'.w (Ansi.visible l)) ∧
    (∀ ρ, t'.main.cr < ρ → ρ < t'.main.top + t'.h → t'.main.row t'.w ρ = List.replicate t'.w 32) ∧
    t'.main.cc = 0 ∧ t'.main.pw = false := by
  have h1 : InlineOrCleared r1 t1 := by rw [hr1, ht1]; exact inlineC_run_inv ops r t h hs
  obtain ⟨z1, z2⟩ := run_size ops r t
  rw [← ht1] at z1 z2
  obtain ⟨a1, a2, a3, a4, a5⟩ := inlineC_write_flush r1 t1 h1 s
  rw [← hr', ← ht'] at a1
  rw [← hr'] at a2 a3
  rw [← ht'] at a4 a5
  have hn1 : 1 ≤ (frameLines (write r1 s)).length := by
    rw [frameLines_eq]; exact frameOf_length_pos _ _
  obtain ⟨v1, v2, v3, v4, v5, v6, v7⟩ := a1.view a3 hn1
  exact ⟨a1, fun hq => absurd a2 hq, a2, a4.trans z1, a5.trans z2, hn1, v1, v2, v3, v4, v5, v6, v7⟩

/-- **Alt-screen round trip.**  From an inline view (`InlineInv r t`): EnterAltScreen, then any
`altStable` history on the alt screen — views, flushes, prints, modes, ClearScreen, repaints —
then ExitAltScreen.

EnterAltScreen first brings the MAIN screen up to date: when printed lines are queued it runs one
ordinary flush (`preAlt r = flush r`: the queued lines and the pending view are painted on the main
screen, exactly as `C14_flush` / `C06_inline_flush_queued` describe), and nothing otherwise
(`preAlt r = (r, [])` when `r.queued = []`).  Call the renderer and terminal after that `r0`, `t0`;
the inline invariant holds for them.  Then, whatever happens on the alt screen: after
ExitAltScreen the inline invariant holds again; the main screen has exactly the cells, the window
and the cursor row of `t0`; the renderer remembers how many lines the inline view of `r0` had; its
queue is that of `r0`; and the line cache is invalid, so that the next write + flush repaints
exactly the latest view in place (`C06_inline_after_alt`).

No side condition is needed on the history: a `printLine` issued while on the alt screen is
IGNORED by the renderer (`step r (.printLine _) = (r, [])` when `altActive`, as in
`standardRenderer.handleMessages`: `if !r.altScreenActive`), so it is neither printed nor queued,
and an alt-screen flush neither prints nor drops the queue (`flushQ` requires `!altActive`).

(Statement before the repair of `enterAltScreen`, which switched without rendering first: the same
with `r`, `t` in place of `r0`, `t0` — `r3.queued = r.queued ∧ t3.main.cells = t.main.cells ∧ …` —
i.e. queued lines were carried through the alt screen.  With `r.queued = []` the two statements
coincide: `C06_alt_roundtrip_nothing_queued`.) -/
theorem C06_alt_roundtrip (r : RState) (t : Term) (hinv : InlineInv r t) (ops : List ROp)
    (hs : ∀ o ∈ ops, altStable o = true) :
    let r0 := (preAlt r).1
    let t0 := applyOps t (preAlt r).2
    let r1 := (enterAlt r).1
    let t1 := applyOps t (enterAlt r).2
    let r2 := (run r1 ops).1
    let t2 := (run r1 ops).2.foldl applyOps t1
    let r3 := (exitAlt r2).1
    let t3 := applyOps t2 (exitAlt r2).2
    InlineInv r0 t0 ∧ t0.alt = t.alt ∧
    InlineInv r3 t3 ∧ r3.queued = r0.queued ∧ t3.main.cells = t0.main.cells ∧
    t3.main.top = t0.main.top ∧ t3.main.cr = t0.main.cr ∧
    r3.linesRendered = r0.linesRendered ∧ r3.lastLines = none ∧
    t3.w = t.w ∧ t3.h = t.h := by
  intro r0 t0 r1 t1 r2 t2 r3 t3
  obtain ⟨p1, p2, _, _⟩ := preAlt_inline r t hinv
  exact ⟨p1, p2, alt_roundtrip r t hinv ops hs⟩

/-- the round trip with nothing queued: the main screen after it is the main screen before it -/
theorem C06_alt_roundtrip_nothing_queued (r : RState) (t : Term) (hinv : InlineInv r t)
    (hq : r.queued = []) (ops : List ROp) (hs : ∀ o ∈ ops, altStable o = true) :
    let r1 := (enterAlt r).1
    let t1 := applyOps t (enterAlt r).2
    let r2 := (run r1 ops).1
    let t2 := (run r1 ops).2.foldl applyOps t1
    let r3 := (exitAlt r2).1
    let t3 := applyOps t2 (exitAlt r2).2
    InlineInv r3 t3 ∧ r3.queued = [] ∧ t3.main.cells = t.main.cells ∧
    t3.main.top = t.main.top ∧ t3.main.cr = t.main.cr ∧
    r3.linesRendered = r.linesRendered ∧ r3.lastLines = none ∧
    t3.w = t.w ∧ t3.h = t.h :=
  alt_roundtrip_noq r t hinv hq ops hs

/-- **The first inline render after coming back from the alt screen** (nothing queued): the view
is repainted in place — it starts at the tape row `viewTop r t` where the inline view started
BEFORE the alt screen was entered, view row `i` is line `i` of the new frame (visible part, cut at
the width, padded), every window row below the cursor is blank, every row above `viewTop r t` is
what it was before the alt screen was entered, the window scrolled by exactly what the view
needs, and the inline invariant holds again. -/
theorem C06_inline_after_alt (r : RState) (t : Term) (hinv : InlineInv r t) (hq : r.queued = [])
    (ops : List ROp) (hs : ∀ o ∈ ops, altStable o = true) (s : Bytes) :
    let r1 := (enterAlt r).1
    let t1 := applyOps t (enterAlt r).2
    let r2 := (run r1 ops).1
    let t2 := (run r1 ops).2.foldl applyOps t1
    let r3 := (exitAlt r2).1
    let t3 := applyOps t2 (exitAlt r2).2
    let r' := (flush (write r3 s)).1
    let t' := applyOps t3 (flush (write r3 s)).2
    InlineInv r' t' ∧ r'.queued = [] ∧ t'.w = t.w ∧ t'.h = t.h ∧
    t'.main.cr + 1 = viewTop r t + (frameLines (write r3 s)).length ∧
    t'.main.cc = 0 ∧ t'.main.pw = false ∧
    (∀ i l, (frameLines (write r3 s))[i]? = some l →
      t'.main.row t.w (viewTop r t + i) = padLine t.w (Ansi.visible l)) ∧
    (∀ ρ, t'.main.cr < ρ → ρ < t'.main.top + t.h → t'.main.row t.w ρ = List.replicate t.w 32) ∧
    (∀ ρ, ρ < viewTop r t → ∀ c, t'.main.cells ρ c = t.main.cells ρ c) ∧
    t'.main.top = max t.main.top (viewTop r t + (frameLines (write r3 s)).length - t.h) := by
  intro r1 t1 r2 t2 r3 t3 r' t'
  obtain ⟨a1, a2, a3, a4, a5, a6, _, a8, a9⟩ := C06_alt_roundtrip_nothing_queued r t hinv hq ops hs
  obtain ⟨b1, b2, _, b4, b5, b6, b7, b8, b9, b10, b11, b12⟩ :=
    C06_inline_flush r3 t3 a1 a2 s r' t' rfl rfl
  have hv : viewTop r3 t3 = viewTop r t := viewTop_congr a6 a5
  rw [hv] at b6 b9 b11 b12
  rw [a8] at b4 b9 b10
  rw [a9] at b5 b10 b12
  rw [a4] at b12
  refine ⟨b1, b2, b4, b5, b6, b7, b8, b9, b10, ?_, b12⟩
  intro ρ hρ c
  rw [b11 ρ hρ c, a3]

/-! ### concrete runs (non-vacuity), W = 10, H = 5, alt screen -/

/-- the first `k` window rows of the alt screen -/
def altRows (t : Term) (k : Nat) : List Bytes :=
  (List.range k).map (fun i => t.alt.row t.w (t.alt.top + i))

/-- write and flush each view in turn, feeding the terminal -/
def renderAll (r : RState) (t : Term) : List Bytes → RState × Term
  | [] => (r, t)
  | s :: ss => renderAll (flush (write r s)).1 (applyOps t (flush (write r s)).2) ss

def r0 : RState := { altActive := true, width := 10, height := 5 }
def t0 : Term := { w := 10, h := 5, onAlt := true }

/-- the initial pair satisfies the invariant (nothing rendered, blank screen) -/
example : AltInv r0 t0 :=
  ⟨rfl, rfl, rfl, rfl, by decide, by decide, fun _ _ _ _ _ => rfl,
    fun _ h => by simp [r0] at h, fun h => by simp [r0] at h, fun _ _ _ => rfl⟩

/-- "aaa\nbbb\nccc" then "aaa\nbbb": the second flush writes HOME, LF (skip "aaa"), ED0, "bbb",
EL0, CUP 2 and the screen is "aaa", "bbb", blank, blank, blank -/
example : (flush (write (flush (write r0 [97,97,97,10,98,98,98,10,99,99,99])).1 [97,97,97,10,98,98,98])).2
    = [.home, .lf, .ed0, .text [98,98,98], .el0, .cup 2] := by decide

set_option maxRecDepth 100000 in
example : altRows (renderAll r0 t0 [[97,97,97,10,98,98,98,10,99,99,99], [97,97,97,10,98,98,98]]).2 5 =
    [[97,97,97,32,32,32,32,32,32,32], [98,98,98,32,32,32,32,32,32,32],
     [32,32,32,32,32,32,32,32,32,32], [32,32,32,32,32,32,32,32,32,32],
     [32,32,32,32,32,32,32,32,32,32]] := by decide

set_option maxRecDepth 100000 in
/-- a line wider than the terminal is cut, not wrapped; a view taller than the terminal shows its
last 5 lines; then the empty view clears everything (one blank line) -/
example : altRows (renderAll r0 t0 [[49,10,50,10,51,10,52,10,53,10,54,10,
      97,98,99,100,101,102,103,104,105,106,107,108]]).2 5 =
    [[51,32,32,32,32,32,32,32,32,32], [52,32,32,32,32,32,32,32,32,32],
     [53,32,32,32,32,32,32,32,32,32], [54,32,32,32,32,32,32,32,32,32],
     [97,98,99,100,101,102,103,104,105,106]] := by decide

set_option maxRecDepth 100000 in
example : altRows (renderAll r0 t0 [[49,10,50,10,51,10,52,10,53,10,54,10,
      97,98,99,100,101,102,103,104,105,106,107,108], []]).2 5 =
    List.replicate 5 (List.replicate 10 32) := by decide

/-! ### resizes on the alt screen: 10x5, then 6x2, then 8x4 -/

/-- the history: "aaa\nbbb\nccc\nddd" on the 10x5 screen; resize to 6x2 and render
"abcdefgh\nxy\nzz"; resize to 8x4 and render "q" -/
def resizeOps : List ROp :=
  [.write [97,97,97,10,98,98,98,10,99,99,99,10,100,100,100], .flush,
   .size 6 2, .write [97,98,99,100,101,102,103,104,10,120,121,10,122,122], .flush,
   .size 8 4, .write [113], .flush]

example : ∀ o ∈ resizeOps, altStableR o = true := by decide

set_option maxRecDepth 100000 in
/-- after the first render: four rows of the 10x5 screen -/
example : altRows (runT r0 t0 (resizeOps.take 2)).2 5 =
    [[97,97,97,32,32,32,32,32,32,32], [98,98,98,32,32,32,32,32,32,32],
     [99,99,99,32,32,32,32,32,32,32], [100,100,100,32,32,32,32,32,32,32],
     [32,32,32,32,32,32,32,32,32,32]] := by decide

set_option maxRecDepth 100000 in
/-- after the resize to 6x2 and the second render: the 2-row window shows the LAST two lines
"xy", "zz" of the three-line view (6 cells each) -/
example :
    let t := (runT r0 t0 (resizeOps.take 5)).2
    (t.w, t.h) = (6, 2) ∧ altRows t 2 = [[120,121,32,32,32,32], [122,122,32,32,32,32]] := by decide

set_option maxRecDepth 100000 in
/-- after the resize to 8x4 and the third render: "q" and three blank rows, 8 cells each — the
old "ccc" / "ddd" rows (dropped by the resize to 2 rows) and the columns beyond 6 come back blank -/
example :
    let t := (runT r0 t0 resizeOps).2
    (t.w, t.h) = (8, 4) ∧
    altRows t 4 = [[113,32,32,32,32,32,32,32], [32,32,32,32,32,32,32,32],
                   [32,32,32,32,32,32,32,32], [32,32,32,32,32,32,32,32]] := by decide

/-! ### styled lines (SGR sequences inside the view), W = 10, H = 5, alt screen -/

/-- the view "\x1b[1mabcdefghijkl\x1b[0m\nxy": the first line takes 12 cells, the renderer cuts
it to 10 cells and keeps BOTH escape sequences (18 bytes are written for it, no EL0: the row is
full); the second line is narrower than the terminal and is followed by EL0 -/
example : (flush (write r0 [27,91,49,109,97,98,99,100,101,102,103,104,105,106,107,108,27,91,48,109,
      10,120,121])).2 =
    [.home, .cr, .text [27,91,49,109,97,98,99,100,101,102,103,104,105,106,27,91,48,109], .cr, .lf,
     .text [120,121], .el0, .cup 2] := by decide

set_option maxRecDepth 100000 in
/-- ... and the screen shows row 0 = "abcdefghij" (10 cells, the escape sequences take none and
nothing wraps), row 1 = "xy" padded, blank rows below -/
example : altRows (renderAll r0 t0 [[27,91,49,109,97,98,99,100,101,102,103,104,105,106,107,108,
      27,91,48,109,10,120,121]]).2 5 =
    [[97,98,99,100,101,102,103,104,105,106], [120,121,32,32,32,32,32,32,32,32],
     [32,32,32,32,32,32,32,32,32,32], [32,32,32,32,32,32,32,32,32,32],
     [32,32,32,32,32,32,32,32,32,32]] := by decide

set_option maxRecDepth 100000 in
/-- a styled line narrower than the terminal ("\x1b[31mab\x1b[0m": 11 bytes, 2 cells) is written
whole and followed by EL0; it replaces the longer plain line that was there, and the row shows
"ab" padded -/
example :
    (flush (write (flush (write r0 [97,98,99,100,101,102])).1 [27,91,51,49,109,97,98,27,91,48,109])).2 =
      [.home, .text [27,91,51,49,109,97,98,27,91,48,109], .el0, .cup 1] ∧
    altRows (renderAll r0 t0 [[97,98,99,100,101,102], [27,91,51,49,109,97,98,27,91,48,109]]).2 2 =
      [[97,98,32,32,32,32,32,32,32,32], [32,32,32,32,32,32,32,32,32,32]] ∧
    lineWidth [27,91,51,49,109,97,98,27,91,48,109] = 2 ∧
    Ansi.visible [27,91,51,49,109,97,98,27,91,48,109] = [97,98] := by decide

/-! ### concrete runs, W = 10, H = 5, inline; the cursor starts on window row 3, row 2 holds
older output ("xxxxxxxxxx") -/

def ri : RState := { width := 10, height := 5 }
def ti : Term := { w := 10, h := 5, main := { cells := fun r _ => if r = 2 then 120 else 32, cr := 3 } }

/-- tape rows `lo .. lo+k-1` of the main screen -/
def mainRows (t : Term) (lo k : Nat) : List Bytes :=
  (List.range k).map (fun i => t.main.row t.w (lo + i))

/-- the initial pair satisfies the inline invariant -/
example : InlineInv ri ti :=
  ⟨rfl, rfl, rfl, rfl, by decide, by decide, ⟨rfl, rfl⟩, by decide,
    fun ρ h _ c _ => by
      have : ρ ≠ 2 := by have : ti.main.cr = 3 := rfl; omega
      simp [ti, this],
    fun _ h => by simp [ri] at h, fun h => by simp [ri] at h⟩

set_option maxRecDepth 100000 in
/-- "a\nb" and then "a\nB\nc\nd" drawn from window row 3 of 5: the second view does not fit, the
window scrolls by 2 (`top = 2`), the view is on tape rows 3..6, the old row 2 is untouched, the
cursor is at the start of row 6; the second flush skipped the unchanged "a" -/
example :
    let t' := (renderAll ri ti [[97,10,98], [97,10,66,10,99,10,100]]).2
    mainRows t' 2 5 =
      [[120,120,120,120,120,120,120,120,120,120], [97,32,32,32,32,32,32,32,32,32],
       [66,32,32,32,32,32,32,32,32,32], [99,32,32,32,32,32,32,32,32,32],
       [100,32,32,32,32,32,32,32,32,32]] ∧
    t'.main.top = 2 ∧ t'.main.cr = 6 ∧ t'.main.cc = 0 ∧ t'.main.pw = false := by decide

set_option maxRecDepth 100000 in
/-- shrinking back to one (over-wide) line: cut at 10 columns, the three rows below are erased -/
example :
    let t' := (renderAll ri ti [[97,10,98], [97,10,66,10,99,10,100],
      [48,49,50,51,52,53,54,55,56,57,58,59]]).2
    mainRows t' 2 5 =
      [[120,120,120,120,120,120,120,120,120,120], [48,49,50,51,52,53,54,55,56,57],
       List.replicate 10 32, List.replicate 10 32, List.replicate 10 32] ∧
    t'.main.top = 2 ∧ t'.main.cr = 3 ∧ t'.main.cc = 0 ∧ t'.main.pw = false := by decide

/-! ### ClearScreen while inline (W = 10, H = 5, cursor starts on window row 3) -/

/-- run renderer steps, feeding the terminal -/
def runOn (r : RState) (t : Term) : List ROp → RState × Term
  | [] => (r, t)
  | o :: os => runOn (step r o).1 (applyOps t (step r o).2) os

set_option maxRecDepth 100000 in
/-- the view "a\nb" (tape rows 3, 4), ClearScreen — the window is blank, old output on row 2
included, the cursor at its top left; the renderer still counts 2 lines —, then the view
"A\nB\nC": the flush starts with CUU 1 (clamped at the top row) and paints every line; the view is
on window rows 0..2, rows 3, 4 are blank, the window did not move -/
example :
    let q := runOn ri ti [.write [97,10,98], .flush, .clearScreen]
    let p := runOn q.1 q.2 [.write [65,10,66,10,67], .flush]
    mainRows q.2 0 5 = List.replicate 5 (List.replicate 10 32) ∧
    q.2.main.top = 0 ∧ q.2.main.cr = 0 ∧ q.2.main.cc = 0 ∧ q.1.linesRendered = 2 ∧
    q.1.lastLines = none ∧ q.1.lastRender = [] ∧
    (flush (write q.1 [65,10,66,10,67])).2 =
      [.cuu 1, .cr, .text [65], .el0, .cr, .lf, .text [66], .el0, .cr, .lf, .text [67], .el0, .cub 10] ∧
    mainRows p.2 0 5 =
      [[65,32,32,32,32,32,32,32,32,32], [66,32,32,32,32,32,32,32,32,32],
       [67,32,32,32,32,32,32,32,32,32], List.replicate 10 32, List.replicate 10 32] ∧
    p.2.main.top = 0 ∧ p.2.main.cr = 2 ∧ p.2.main.cc = 0 ∧ p.2.main.pw = false ∧
    p.1.linesRendered = 3 := by decide

/-! ### alt-screen round trip from the inline view (W = 10, H = 5, cursor starts on window row 3) -/

/-- enter the alt screen, run `ops` there, leave it -/
def roundTrip (r : RState) (t : Term) (ops : List ROp) : RState × Term :=
  let r1 := (enterAlt r).1
  let t1 := applyOps t (enterAlt r).2
  let r2 := (run r1 ops).1
  let t2 := (run r1 ops).2.foldl applyOps t1
  ((exitAlt r2).1, applyOps t2 (exitAlt r2).2)

/-- what happens on the alt screen: a three-line view, a printed line (ignored there),
ClearScreen, a hidden cursor, another view -/
def altOps : List ROp :=
  [.write [122,122,122,10,121,121,121,10,120,120,120], .flush, .printLine [112], .clearScreen,
   .hideCursor, .write [107], .flush]

example : ∀ o ∈ altOps, altStable o = true := by decide

set_option maxRecDepth 100000 in
/-- the inline view "a\nb" (tape rows 3, 4), then the round trip: the alt screen showed "k"; back on
the main screen rows 2..4 read "xxxxxxxxxx", "a", "b" as before, the cursor is on row 4, the
renderer still counts 2 inline lines, its cache is invalid and nothing is queued -/
example :
    let p := renderAll ri ti [[97,10,98]]
    let q := roundTrip p.1 p.2 altOps
    q.2.alt.cells 0 0 = 107 ∧ q.2.onAlt = false ∧
    mainRows q.2 2 4 =
      [[120,120,120,120,120,120,120,120,120,120], [97,32,32,32,32,32,32,32,32,32],
       [98,32,32,32,32,32,32,32,32,32], List.replicate 10 32] ∧
    q.2.main.top = 0 ∧ q.2.main.cr = 4 ∧ q.2.main.cc = 0 ∧ q.2.main.pw = false ∧
    q.1.linesRendered = 2 ∧ q.1.lastLines = none ∧ q.1.queued = [] ∧ q.1.altActive = false := by
  decide

set_option maxRecDepth 100000 in
/-- ... and the next view "A\nb\nc" is painted in place from row 3 (CUU 1 first: the renderer
remembers its 2 lines), scrolling the window by one row -/
example :
    let p := renderAll ri ti [[97,10,98]]
    let q := roundTrip p.1 p.2 altOps
    let t' := (renderAll q.1 q.2 [[65,10,98,10,99]]).2
    (flush (write q.1 [65,10,98,10,99])).2 =
      [.cuu 1, .cr, .text [65], .el0, .cr, .lf, .text [98], .el0, .cr, .lf, .text [99], .el0, .cub 10] ∧
    mainRows t' 2 5 =
      [[120,120,120,120,120,120,120,120,120,120], [65,32,32,32,32,32,32,32,32,32],
       [98,32,32,32,32,32,32,32,32,32], [99,32,32,32,32,32,32,32,32,32], List.replicate 10 32] ∧
    t'.main.top = 1 ∧ t'.main.cr = 5 ∧ t'.main.cc = 0 ∧ t'.main.pw = false := by decide

end Tea.Props.C06
