"""Per-property configuration of ./check: which Lean modules hold the
obligations, which correspondence streams and scenario sets tie them to /repo."""
import os
import sys

_here = os.path.dirname(os.path.abspath(__file__))
sys.path.insert(0, _here)
from factmap import FACTMAP  # noqa: E402

_LEAN = os.path.join(os.path.dirname(_here), "lean")

TRUSTED_BASE = [
    "Lean 4.33.0 kernel (leanchecker re-check in the thorough tier); axioms allowed: propext, Classical.choice, Quot.sound (audited with #print axioms on every run)",
    "harness `gen` (value dump through verif_export.go + go/ast fact extractor) regenerates Tea/Gen/* from /repo's working tree on every run; bridge theorems compare it with the frozen Tea/Doc/*",
    "correspondence harness: generators, canonical printers on both sides, line-by-line diff of implementation vs compiled Lean model; scenario harness: recording model, pause points, watchdogs",
]

INPUT_TRUST = [
    "modelled, validated by the detect/reader streams: Go's unicode/utf8.DecodeRune/FullRune, strconv.Atoi saturation, leftmost-first matching of the two fixed regular expressions",
]
RENDER_TRUST = [
    "text metric: one cell per byte except the bytes of escape sequences, which take none (Tea/Prelude/Ansi.lean models ansi.StringWidth/Truncate on printable ASCII + CSI sequences; multi-byte and wide characters are outside the model)",
    "terminal semantics of Tea/VT (xterm-style pending wrap, erase from cursor, 1049 save/restore, no reflow), cross-checked against the Go interpreter by the `vt` stream",
]
RUNTIME_TRUST = [
    "modelled, not verified: Go's unbuffered channels, select, context cancellation, sync.Once/Mutex, goroutine fairness",
]

DETECT = {"name": "detect", "quick": 40000, "thorough": 400000}
READER = {"name": "reader", "quick": 8000, "thorough": 60000}
RENDER = {"name": "render", "quick": 3000, "thorough": 60000}
VT = {"name": "vt", "quick": 2500, "thorough": 30000}
# the byte-exact stream as a source of histories for the screen oracles only: a disagreement in
# the BYTES (with the same terminal state after every operation, which `vt` checks) does not
# concern a property about what the terminal shows
# C19 is an upper bound on what is written: the tie it needs is one-sided (per operation the
# implementation writes at most as many bytes as the model, whose output the theorems bound)
RENDER_LE = {"name": "render", "quick": 3000, "thorough": 60000, "cmp": "bytes-le"}
RENDER_INFO = {"name": "render", "quick": 3000, "thorough": 60000, "informational": True}
GLUE = {"name": "glue", "quick": 250, "thorough": 4000}
PTRACE = {"name": "ptrace", "quick": 150, "thorough": 3000}
LIFE = {"name": "life", "quick": 100, "thorough": 600}
# histories of real programs (trace points) accepted by the Lifecycle LTS
LTRACE = {"name": "ltrace", "quick": 60, "thorough": 4000}
CMDFNS = {"name": "cmdfns", "quick": 2000, "thorough": 50000}
# histories of real sequences (command starts, the loop's filter calls and episode ends) accepted by the
# product of the Sequence LTS with the loop's books (Tea/Runtime/SeqTrace.lean, C03_trace_checker_sound)
STRACE = {"name": "strace", "quick": 300, "thorough": 6000}

INPUT_RULE = ("detect: all buffers of <=1 byte and 13x256 (thorough: all) of 2 bytes, all words <=3 (thorough 4) over an 18-byte branch alphabet, every documented key alone/alt/with a tail, all 256 SGR codes x {M,m}, all X10 codes, huge numeric parameters, then seeded structured/mutated/malformed buffers, each with both canHaveMoreData flags; "
              "reader: every documented key between two random events, every event kind at every alignment against the 256-byte buffer, pastes of 0..513 (thorough 4096) bytes cut after the start marker, seeded event streams under whole/full-256/random/byte-wise chunkings. distinct = distinct op lines; non-trivial = not the empty buffer")
RENDER_RULE = ("render/vt: seeded histories of 1..40 renderer operations (views derived from the previous one: change/append/drop lines, widths W-1/W/W+1, empty and blank lines, taller than H; prints of up to 2W+1 cells; alt switches, ClearScreen, repaint, resizes in alt, mode ops, stop/kill) at W in {1..8,10,12,80}, H in {1..6,8,24}, any initial cursor row; a fixed corpus of the shapes the properties single out runs first. distinct = distinct history lines")

_CFG = {
    "C01": {"scenarios": ["fold", "term"], "streams": [PTRACE], "trusted": RUNTIME_TRUST},
    "C02": {"scenarios": ["cmds"], "streams": [PTRACE, CMDFNS], "trusted": RUNTIME_TRUST},
    "C03": {"scenarios": ["seq"], "streams": [CMDFNS, STRACE], "trusted": RUNTIME_TRUST},
    "C04": {"scenarios": ["term", "pty", "sigexec"], "streams": [LIFE, LTRACE, READER], "trusted": RUNTIME_TRUST},
    "C05": {"scenarios": ["modes", "exec", "pty"], "streams": [GLUE], "trusted": RENDER_TRUST},
    "C06": {"streams": [VT, RENDER_INFO], "scenarios": ["wide"], "rule": RENDER_RULE, "trusted": RENDER_TRUST},
    "C07": {"streams": [VT, RENDER_INFO], "scenarios": ["final"], "rule": RENDER_RULE, "trusted": RENDER_TRUST},
    "C08": {"streams": [DETECT, READER], "rule": INPUT_RULE, "trusted": INPUT_TRUST},
    "C09": {"streams": [DETECT, READER], "rule": INPUT_RULE, "trusted": INPUT_TRUST,
            "assumptions": ["the reader goroutine's cancellation (ctx.Done arm of the send) is covered by the C04 scenarios, not by this model"]},
    "C10": {"streams": [DETECT, READER], "rule": INPUT_RULE, "trusted": INPUT_TRUST},
    "C11": {"streams": [DETECT, READER], "rule": INPUT_RULE, "trusted": INPUT_TRUST},
    "C12": {"scenarios": ["modes", "exec"], "streams": [GLUE], "trusted": RENDER_TRUST},
    "C13": {"scenarios": ["api"], "streams": [LIFE, LTRACE], "trusted": RUNTIME_TRUST},
    "C14": {"streams": [VT, RENDER_INFO], "scenarios": ["prints"], "rule": RENDER_RULE, "trusted": RENDER_TRUST},
    "C15": {"streams": [DETECT, READER], "rule": INPUT_RULE, "trusted": INPUT_TRUST},
    "C16": {"scenarios": ["filter", "pty"], "streams": [PTRACE], "trusted": RUNTIME_TRUST},
    "C17": {"scenarios": ["exec", "pty"], "streams": [GLUE], "trusted": RENDER_TRUST + ["input hand-over to the exec'd command depends on cancelreader/epoll semantics: observed on an os.Pipe, not proved"]},
    "C18": {"scenarios": ["pty", "term", "sigexec"], "trusted": RUNTIME_TRUST + ["kernel signal delivery, os/signal.Notify, TIOCGWINSZ/SIGWINCH are outside the model: observed on a pty, not proved"]},
    "C19": {"streams": [RENDER_LE, {"name": "fps", "quick": 2000, "thorough": 100000}], "scenarios": ["frames"], "rule": RENDER_RULE, "trusted": RENDER_TRUST},
    "C20": {"streams": [{"name": "every", "quick": 6000, "thorough": 200000}], "scenarios": ["timing"],
            "rule": "every: Every's delay expression evaluated by Go's time package vs the Lean model on boundary instants (+-1ns), zero/negative/huge durations and seeded random instants; timing: real Tick/Every commands. distinct = distinct (instant, duration) lines; non-trivial = positive duration",
            "trusted": ["Go timers do not fire before their duration has elapsed (Timer.notEarly hypothesis; sampled by the timing scenario)"]},
}

# extra Lean modules per property (beyond Tea.Props.Cxx and Tea.Props.Bridge.Cxx)
_EXTRA = {
    "C08": ["Tea.Props.BridgeInput", "Tea.Props.BridgeC08"], "C09": ["Tea.Props.BridgeInput"], "C10": ["Tea.Props.BridgeInput"],
    "C11": ["Tea.Props.BridgeInput"], "C15": ["Tea.Props.BridgeInput", "Tea.Props.BridgeInputC15"],
}

PROPS = {}
for _pid, _c in _CFG.items():
    mods = []
    if os.path.exists(os.path.join(_LEAN, "Tea", "Props", _pid + ".lean")):
        mods.append("Tea.Props." + _pid)
    if _pid in FACTMAP:
        mods.append("Tea.Props.Bridge." + _pid)
    mods += _EXTRA.get(_pid, [])
    c = dict(_c)
    c["modules"] = mods
    c.setdefault("rule", "see the `rule` of each scenario set in coverage.scenarios")
    PROPS[_pid] = c
