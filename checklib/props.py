"""Per-property configuration of ./check (which Lean modules hold the
obligations, which correspondence streams and scenario sets tie them to /repo)."""

TRUSTED_BASE = [
    "Lean 4.33.0 kernel (leanchecker re-check in the thorough tier); axioms allowed: propext, Classical.choice, Quot.sound (audited with #print axioms on every run)",
    "harness `gen` (value dump through verif_export.go + go/ast fact extractor) regenerates Tea/Gen/* from /repo's working tree on every run",
    "correspondence harness: generators, canonical printers on both sides, line-by-line diff of implementation vs compiled Lean model",
]

INPUT_TRUST = [
    "modelled, validated by the detect/reader streams: Go's unicode/utf8.DecodeRune, strconv.Atoi saturation, leftmost-first matching of the two fixed regular expressions",
]

PROPS = {
    "C09": {
        "modules": ["Tea.Props.C09", "Tea.Props.BridgeInput"],
        "streams": [
            {"name": "detect", "quick": 40000, "thorough": 400000},
            {"name": "reader", "quick": 8000, "thorough": 60000},
        ],
        "rule": "detect: all buffers of <=1 byte and 13x256 (thorough: all) of 2 bytes, all words <=3 (thorough 4) over an 18-byte branch alphabet, every documented key alone/alt/with a tail, all 256 SGR codes x {M,m}, all X10 codes, then seeded structured/mutated/malformed buffers, each with both canHaveMoreData flags; reader: seeded event streams under whole/full-256/random/byte-wise chunkings. distinct = distinct op lines; non-trivial = not the empty buffer",
        "trusted": INPUT_TRUST,
        "assumptions": ["the reader goroutine's cancellation (ctx.Done arm of the send) is covered by the C04 scenarios, not by this model"],
    },
    "C01": {"modules": [], "scenarios": ["fold"], "rule": "see scenario rule"},
    "C02": {"modules": [], "scenarios": ["cmds"], "rule": "see scenario rule"},
    "C03": {"modules": [], "scenarios": ["seq"], "rule": "see scenario rule"},
    "C04": {"modules": [], "scenarios": ["term"], "rule": "see scenario rule"},
    "C13": {"modules": [], "scenarios": ["api"], "rule": "see scenario rule"},
    "C16": {"modules": [], "scenarios": ["filter"], "rule": "see scenario rule"},
    "C20": {
        "modules": ["Tea.Props.C20"],
        "streams": [{"name": "every", "quick": 6000, "thorough": 200000}],
        "scenarios": ["timing"],
        "rule": "every: Every's delay expression evaluated by Go's time package vs the Lean model on boundary instants (+-1ns), zero/negative/huge durations and seeded random instants; timing: real Tick/Every commands. distinct = distinct (instant, duration) lines; non-trivial = positive duration",
        "trusted": ["Go timers do not fire before their duration has elapsed (Timer.notEarly hypothesis; sampled by the timing scenario)"],
    },
    "C15": {"modules": [], "streams": [{"name": "reader", "quick": 8000, "thorough": 60000}], "rule": "see C09"},
    "C06": {"modules": [], "streams": [{"name": "render", "quick": 3000, "thorough": 100000}], "rule": "render histories"},
    "C14": {"modules": [], "streams": [{"name": "render", "quick": 3000, "thorough": 100000}], "rule": "render histories"},
    "C05": {"modules": [], "scenarios": ["modes"], "rule": "see scenario rule"},
    "C12": {"modules": [], "scenarios": ["modes"], "rule": "see scenario rule"},
}
