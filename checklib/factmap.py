"""Which extracted facts each property's models and theorems rest on."""

RUNTIME_CORE = ["sends", "recvs", "closes", "makechans", "gostmts", "ctxchecks", "calls", "sendcalls", "el_head", "el_tail", "el_cases",
                "body_Program_Send", "body_Program_handleCommands"]

# the bodies of the functions that the renderer model / the input model mirror statement by statement
RENDER_BODIES = ["body_standardRenderer_render", "body_standardRenderer_flush", "body_standardRenderer_write", "body_standardRenderer_repaint", "body_standardRenderer_handleMessages", "body_standardRenderer_stop", "body_standardRenderer_kill", "body_standardRenderer_clearScreen", "body_standardRenderer_enterAltScreen", "body_standardRenderer_exitAltScreen"]
INPUT_BODIES = ["regexps", "body_readAnsiInputs", "body_detectOneMsg", "body_detectSequence", "body_detectBracketedPaste", "body_detectReportFocus", "body_isIncompleteEvent"]
MOUSE_BODIES = ["body_parseSGRMouseEvent", "body_parseX10MouseEvent", "body_parseMouseButton"]

FACTMAP = {
    "C01": RUNTIME_CORE + ["sig_Program_Run"],
    "C02": RUNTIME_CORE + ["el_case_BatchMsg"],        # Batch itself: `cmdfns` stream (behavioural)
    "C03": RUNTIME_CORE + ["el_case_sequenceMsg"],     # Sequence itself: `cmdfns` stream
    "C04": RUNTIME_CORE + ["order_Program_shutdown", "order_Program_Run", "order_Program_recoverFromPanic", "sig_Program_Run",
                           "body_Program_readLoop", "body_Program_waitForReadLoop", "body_channelHandlers_shutdown",
                           "body_Program_handleSignals", "body_Program_handleResize", "body_Program_listenForResize",
                           "body_Program_checkResize", "body_Program_Kill", "body_Program_Quit",
                           "el_case_QuitMsg", "el_case_InterruptMsg", "el_case_BatchMsg",
                           "order_standardRenderer_stop", "order_standardRenderer_kill", "body_standardRenderer_listen",
                           "body_standardRenderer_halt", "body_standardRenderer_start",   # the stop handshake: only with a running listener
                           "order_Program_ReleaseTerminal", "order_Program_RestoreTerminal", "order_Program_exec"],   # Exec inside the Lifecycle LTS (signals ignored while released)
    "C05": ["order_Program_shutdown", "order_Program_restoreTerminalState", "order_Program_Run", "order_Program_initTerminal",
            "order_Program_disableMouse", "order_Program_recoverFromPanic", "calls",
            "body_Program_initInput", "body_Program_restoreInput"],   # the termios model (Tea/Render/Tty.lean)
    "C07": ["order_Program_Run", "order_Program_shutdown", "order_standardRenderer_stop", "calls", "locks", "body_standardRenderer_halt"] + RENDER_BODIES,
    "C12": ["locks",   # every mode method: lock, write its sequence, unlock - nothing else, nothing conditional
            "order_Program_Run", "order_Program_disableMouse", "el_case_enterAltScreenMsg", "el_case_exitAltScreenMsg",
            "el_case_enableMouseCellMotionMsg_enableMouseAllMotionMsg", "el_case_disableMouseMsg", "el_case_showCursorMsg",
            "el_case_hideCursorMsg", "el_case_enableBracketedPasteMsg", "el_case_disableBracketedPasteMsg",
            "el_case_enableReportFocusMsg", "el_case_disableReportFocusMsg", "el_case_clearScreenMsg"],
    "C13": ["sends", "recvs", "closes", "makechans", "ctxchecks", "body_Program_Send", "body_Program_Quit", "body_Program_Kill",
            "body_Program_Wait", "body_Program_Println", "body_Program_Printf", "order_Program_shutdown", "order_Program_Run"],
    "C16": ["el_head", "el_tail", "el_cases", "calls", "sendcalls", "body_WithFilter", "sends", "body_Program_handleSignals", "body_Program_Send"],
    "C17": ["order_Program_exec", "order_Program_ReleaseTerminal", "order_Program_RestoreTerminal", "el_case_execMsg",
            "order_Program_restoreTerminalState", "body_Program_initCancelReader", "order_standardRenderer_stop",
            "order_standardRenderer_start", "body_Program_readLoop", "body_Program_waitForReadLoop", "body_standardRenderer_halt",
            "body_Exec", "body_ExecProcess", "body_wrapExecCommand", "body_osExecCommand_SetStdin", "body_osExecCommand_SetStdout",
            "body_osExecCommand_SetStderr",
            "body_Program_suspend", "el_case_SuspendMsg", "methods_osExecCommand"],   # what is handed to os/exec: nothing but the command and the program's stdio
    "C18": ["body_Program_handleSignals", "body_Program_handleResize", "body_Program_listenForResize", "body_Program_checkResize",
            "body_Program_initInput",   # ttyOutput (whether size reporting exists at all) is decided there
            "el_case_windowSizeMsg", "order_Program_ReleaseTerminal", "order_Program_RestoreTerminal", "order_Program_Run"],
    "C19": RENDER_BODIES + ["body_WithFPS", "calls", "body_standardRenderer_listen", "body_standardRenderer_start", "body_standardRenderer_halt", "locks"],
    "C20": ["body_Every", "body_Tick"],
    "C08": INPUT_BODIES,
    "C09": ["bufsize"] + INPUT_BODIES,
    "C10": INPUT_BODIES + ["body_Key_String"],   # a paste's string form is bracketed so that it never equals a key's
    "C11": INPUT_BODIES + MOUSE_BODIES,
    "C15": ["bufsize"] + INPUT_BODIES,
    "C14": ["body_Program_Println", "body_Program_Printf", "locks"] + RENDER_BODIES,   # handleMessages / write / repaint themselves: vt stream (behavioural)
    "C06": ["locks"] + RENDER_BODIES,
}

# Ancillary functions (round 16): small functions outside the statement-by-statement mirrors whose exact text the
# models nevertheless take for granted - what a fresh Program consists of, which start-up option sets which bit,
# which message a mode command carries, that the renderer of WithoutRenderer does nothing, how the input is opened.
OPTIONS_MODES = ["body_WithAltScreen", "body_WithoutBracketedPaste", "body_WithMouseCellMotion", "body_WithMouseAllMotion",
                 "body_WithReportFocus", "body_startupOptions_has"]
MODE_CMDS = ["body_ClearScreen", "body_EnterAltScreen", "body_ExitAltScreen", "body_EnableMouseCellMotion", "body_EnableMouseAllMotion",
             "body_DisableMouse", "body_HideCursor", "body_ShowCursor", "body_EnableBracketedPaste", "body_DisableBracketedPaste",
             "body_EnableReportFocus", "body_DisableReportFocus", "body_SetWindowTitle",
             "body_Program_EnterAltScreen", "body_Program_ExitAltScreen", "body_Program_EnableMouseCellMotion",
             "body_Program_DisableMouseCellMotion", "body_Program_EnableMouseAllMotion", "body_Program_DisableMouseAllMotion",
             "body_Program_SetWindowTitle"]
RENDER_SMALL = ["body_standardRenderer_execute", "body_standardRenderer_lastLinesRendered", "body_standardRenderer_setWindowTitle"]
RENDER_QUERIES = ["body_standardRenderer_altScreen", "body_standardRenderer_bracketedPasteActive", "body_standardRenderer_reportFocus"]
PROGRAM_NEW = ["body_NewProgram", "body_WithContext", "body_WithOutput", "body_WithInput", "body_WithInputTTY",
               "body_WithoutCatchPanics", "body_WithoutRenderer", "body_WithEnvironment"]
NILR = ["bodies_nilRenderer"]
INPUT_OPEN = ["body_newInputReader", "body_readInputs", "body_openInputTTY"]
ANCILLARY = {
    "C01": PROGRAM_NEW + ["body_Program_Start", "body_Program_StartReturningModel"],
    "C02": ["body_NewProgram", "body_WithoutCatchPanics"],
    "C03": ["body_NewProgram"],
    "C04": PROGRAM_NEW + NILR + INPUT_OPEN + ["body_Program_handlePanic", "body_channelHandlers_add", "body_Quit", "body_Interrupt",
                                              "body_WithoutSignalHandler", "body_Program_Start", "body_Program_StartReturningModel"],
    "C05": OPTIONS_MODES + RENDER_QUERIES + ["body_Program_handlePanic", "body_openInputTTY", "body_NewProgram", "body_WithInputTTY",
                                             "body_WithInput", "body_WithOutput", "body_standardRenderer_execute"],
    "C06": RENDER_SMALL + ["body_WithANSICompressor", "body_WithOutput"],
    "C07": RENDER_SMALL + ["body_Quit", "body_WithANSICompressor"],
    "C09": ["body_newInputReader", "body_readInputs"],
    "C11": ["body_MouseEvent_IsWheel"],
    "C12": OPTIONS_MODES + MODE_CMDS + RENDER_QUERIES + ["body_standardRenderer_execute", "body_standardRenderer_setWindowTitle"],
    "C13": NILR + ["body_NewProgram", "body_Println", "body_Printf", "body_Quit"],
    "C14": ["body_Println", "body_Printf", "body_standardRenderer_execute"],
    "C15": ["body_newInputReader", "body_readInputs"],
    "C16": ["body_NewProgram"],
    "C17": RENDER_QUERIES + ["body_suspendProcess", "body_Suspend", "body_newInputReader"],
    "C18": ["body_WithoutSignalHandler", "body_WithoutSignals", "body_WindowSize", "body_NewProgram"],
    "C19": RENDER_SMALL + ["body_WithANSICompressor", "body_WithOutput"],
}
for _p, _ks in ANCILLARY.items():
    FACTMAP[_p] = FACTMAP[_p] + [k for k in _ks if k not in FACTMAP[_p]]
