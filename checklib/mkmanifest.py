#!/usr/bin/env python3
"""Regenerates /verif/MANIFEST.json from checklib/props.py and checklib/manifest_text.py."""
import json
import os
import sys

here = os.path.dirname(os.path.abspath(__file__))
sys.path.insert(0, here)
from props import PROPS  # noqa: E402
from manifest_text import TEXT, NOT_APPLICABLE, HOOK_COMMITS  # noqa: E402

ALL = ["C%02d" % i for i in range(1, 21)]
checks = []
for pid in ALL:
    if pid not in PROPS or pid not in TEXT:
        continue
    t = TEXT[pid]
    checks.append({
        "property_id": pid,
        "quick_cmd": "./check %s quick" % pid,
        "thorough_cmd": "./check %s thorough" % pid,
        "evidence_file": "/verif/evidence/%s.json" % pid,
        "replay_cmd_template": "./check replay {path}",
        "engine": "lean4-proof+correspondence",
        "level_claimed": {"category": "proof", "text": t["level"], "design_ref": t["design_ref"]},
        "level_note": t["note"],
        "technique": t["technique"],
    })
na = [{"property_id": p, "reason": NOT_APPLICABLE.get(p, "check not built yet in this round (work in progress; see DESIGN.md section 5)")}
      for p in ALL if p not in [c["property_id"] for c in checks]]
m = {
    "version": 1,
    "setup_cmd": "./check setup",
    "hooks": {
        "guard": "verif",
        "enable": "go build -tags verif (the harness module /verif/harness replaces the bubbletea module by /repo)",
        "baseline_off_cmd": "cd /repo && go build ./... && go test -vet=off -count=1 -timeout 25m ./...",
        "source_commits": HOOK_COMMITS,
        "add_only": True,
    },
    "engines": [{
        "name": "lean4-proof+correspondence",
        "path": "/verif/check",
        "serves_properties": [c["property_id"] for c in checks],
        "kind_free_text": "Lean 4 theorems about an executable model (lake build + #print axioms audit), tied to /repo by facts regenerated from the source (harness gen -> Tea/Gen, bridge theorems) and by differential runs of the compiled model against the real code (harness corr / scen)",
    }],
    "checks": checks,
    "not_applicable": na,
    "notes": "Every check rebuilds the Go harness against /repo's working tree with -tags verif, regenerates Tea/Gen, rebuilds the Lean obligations, audits axioms, then runs the correspondence streams and scenario oracles. See DESIGN.md.",
}
with open(os.path.join(os.path.dirname(here), "MANIFEST.json"), "w") as f:
    json.dump(m, f, indent=1)
print("checks:", [c["property_id"] for c in checks])
