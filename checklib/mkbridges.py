#!/usr/bin/env python3
"""Writes lean/Tea/Props/Bridge/Cxx.lean from checklib/factmap.py (committed files)."""
import os, sys
here = os.path.dirname(os.path.abspath(__file__))
sys.path.insert(0, here)
from factmap import FACTMAP
d = os.path.join(os.path.dirname(here), "lean", "Tea", "Props", "Bridge")
os.makedirs(d, exist_ok=True)
for pid, keys in FACTMAP.items():
    with open(os.path.join(d, pid + ".lean"), "w") as f:
        f.write("import Tea.Gen.Facts\nimport Tea.Doc.Facts\n")
        f.write("/-\nBridge theorems of %s: the facts the go/ast extractor reads from /repo's CURRENT source\n(`Tea.Gen`, regenerated on every run) equal the frozen expectation the models and theorems\nof this property were written against (`Tea.Doc`). Written by checklib/mkbridges.py.\n-/\n" % pid)
        f.write("namespace Tea.Props.Bridge.%s\n\n" % pid)
        for k in dict.fromkeys(keys):
            f.write("theorem %s : Tea.Gen.fact_%s = Tea.Doc.fact_%s := rfl\n" % (k, k, k))
        f.write("\nend Tea.Props.Bridge.%s\n" % pid)
print("wrote", len(FACTMAP), "bridge modules")
