"""Texts of MANIFEST.json per property."""
import subprocess

def _hooks():
    try:
        out = subprocess.check_output(["git", "-C", "/repo", "log", "--format=%h %s"], text=True)
        return [l.split()[0] for l in out.splitlines() if l.split(" ", 1)[1].startswith("verif:")]
    except Exception:
        return ["2eabce0"]

HOOK_COMMITS = _hooks()

NOT_APPLICABLE = {}

_TECH = "Lean 4 proof over an executable model + {tie}"

def _t(level, ref, note, tie):
    return {"level": level, "design_ref": ref, "note": note, "technique": _TECH.format(tie=tie)}

RT_NOTE = ("Trusted: Lean kernel; the LTS as a model of Go's unbuffered channels/select/context/goroutines (modelled, not verified); "
           "fairness of the Go scheduler; the tie is the regenerated inventory of every channel operation, goroutine, context check and call site (bridge theorems) "
           "plus scenario runs of real programs with property oracles.")

TEXT = {
    "C01": _t("Machine-checked invariants of a labelled transition system of the message pipeline (any number of senders with any scripts, event loop, dispatcher, command goroutines, cancellation) for EVERY program and EVERY schedule: model = fold of Update over the Update log; per-sender received messages are a subsequence of what was handed to Send and, before cancellation, exactly the completed Sends; without a filter the Update log is the received log minus quit/interrupt/batch; only the event loop's step changes the model.",
              "DESIGN.md 5.0 / C01", RT_NOTE, "regenerated source facts (bridge theorems) + scenario oracles on real programs"),
    "C02": _t("Machine-checked invariants of the pipeline LTS for every program and schedule: each hand-over of a non-nil command starts exactly one goroutine (nil: none); every issued command is handed over unless the loop left by cancellation; a command goroutine runs its command at most once and sends nothing before; its result is received at most once (exactly once before cancellation); executing a command leaves the loop untouched; a goroutine in any state disables no step of any other process; BatchMsg never reaches Update; Batch as a pure function.",
              "DESIGN.md 5.0 / C02", RT_NOTE + " 'Eventually invoked' is proved modulo scheduler fairness.", "regenerated source facts + scenario oracles (command trees, blocking commands, reused slices)"),
    "C09": _t("Machine-checked theorems about an executable model of detectOneMsg/readAnsiInputs, for every key table, every byte string and every division into reads: no panic, width in range, zero width only for the documented hold-back reasons, byte-exact accounting of consumed runs + left-over, termination of the decode loop, at end of input only an unterminated paste stays undelivered.",
              "DESIGN.md 5.2 / C09", "Trusted: Lean kernel; the model of Go's utf8.DecodeRune/FullRune, strconv.Atoi and the two regexes (validated by the streams); the generators. Not modelled here: the select on ctx.Done around the channel send (covered dynamically under C04).",
              "differential correspondence (detect/reader streams) with the Go code"),
    "C10": _t("Machine-checked theorems for every payload without the end marker and every division into reads after the start marker: exactly one paste message with the valid runes of the payload, nothing inside interpreted, nothing emitted before the end marker completes, events after it decoded as usual; the paste string form can never equal a shortcut.",
              "DESIGN.md 5.2 / C10", "Trusted as for C09; completely filled 256-byte reads need the table to have no key starting with the paste start marker (bridge theorem start_free on the regenerated table).",
              "differential correspondence (reader stream incl. every cut position of short pastes) with the Go code"),
    "C11": _t("Machine-checked theorems for ALL naturals b, x, y (decimal round trip, saturation at 2^63-1) and all X10 bytes: an SGR or X10 report followed by anything decodes to exactly the event an independent xterm specification gives (button, action, modifiers, zero-based cell, deprecated type) and consumes exactly its own bytes; wheel/motion/release rules; agreement of the two encodings.",
              "DESIGN.md 5.2 / C11", "Trusted as for C09; the xterm specification in Tea/Input/XtermSpec.lean is the reading of xterm ctlseqs used.",
              "differential correspondence (detect stream: all 256 SGR codes x M/m, all X10 codes) with the Go code"),
    "C16": _t("Machine-checked: the filter log equals the received log (consulted once per message, in order) with the model current at that point; the loop's reaction to a filtered message is exactly its reaction, in a program without filter, to the filter's result (nil: nothing at all); a whole filtered run equals the unfiltered run on the effective messages.",
              "DESIGN.md C16", RT_NOTE, "regenerated source facts (event loop head/tail shape) + scenario oracles with seeded filter policies"),
    "C19": _t("Machine-checked about the renderer model: an unchanged or empty frame writes nothing and changes nothing; writes are silent and coalesce; an unchanged line costs at most one byte (exactly LF or nothing); a changed line at most its length + 9; the flush byte bound over changed lines; fps clamp 1..120 with default 60 and the resulting frame interval.",
              "DESIGN.md 5.1 / C19", "Trusted: Lean kernel; ASCII text metric; PARTIAL BY NATURE for 'at most one render per frame interval in real time': the ticker is Go's time.Ticker; proved is that only ticks flush (call-site fact), writes between ticks coalesce and the interval value.",
              "byte-exact differential correspondence (render, fps streams) with the real renderer"),
    "C20": _t("Machine-checked for every instant and positive duration (unbounded integers): Every's delay is positive, at most one period and ends on the NEXT period boundary; Tick/Every report a time not before created+d / the next boundary; the callback gets the firing time.",
              "DESIGN.md C20", "PARTIAL BY NATURE: that a Go timer does not fire before its duration elapsed is the runtime's contract (structure field Timer.notEarly), sampled by the timing scenario.",
              "differential correspondence (Every's delay vs Go's time package) + source facts (bodies of Every/Tick) + timing runs"),
}
