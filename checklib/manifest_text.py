"""Texts of MANIFEST.json per property."""

HOOK_COMMITS = ["2eabce0"]

NOT_APPLICABLE = {}

TEXT = {
    "C09": {
        "level": "Machine-checked Lean 4 theorems about an executable model of detectOneMsg/readAnsiInputs, for every key table, every byte string and every division into reads: no panic (all index expressions and the explicit mouse panic), width in range, zero width only for an unterminated paste or an open rune run at the end of a full buffer, byte-exact accounting of consumed runs + left-over, termination of the decode loop. The model is tied to the code by differential runs (detect/reader streams) on every check.",
        "design_ref": "DESIGN.md 5.2 / C09",
        "note": "Trusted: Lean kernel; the model of Go's utf8.DecodeRune, strconv.Atoi and the two regexes (validated by the streams); the generators. Not modelled here: the select on ctx.Done around the channel send (covered dynamically under C04).",
        "technique": "Lean 4 proof over an executable model + differential correspondence with the Go code",
    },
}
