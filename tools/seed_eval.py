#!/usr/bin/env python3
"""Evaluate a seeded change produced by a sub-agent.

  tools/seed_eval.py <worktree> <name> <property> [more properties to run]

1. confirms in the scratch worktree: existing tests pass with the change, the
   demonstration fails with it and passes without it;
2. stores it as /verif/seeded/<name>/ (patch.diff, demo, meta.json);
3. applies it to /repo, runs ./check <property> quick, and undoes it.
"""
import json, os, shutil, subprocess, sys, time

wt, name, props = sys.argv[1], sys.argv[2], sys.argv[3:]
out = os.path.join(wt, os.environ.get("SEED_OUT", "OUT"))
dst = os.path.join("/verif/seeded", name)

def sh(cmd, cwd=None, timeout=600):
    p = subprocess.run(cmd, shell=True, cwd=cwd, stdout=subprocess.PIPE, stderr=subprocess.STDOUT, text=True, errors="replace", timeout=timeout)
    return p.returncode, p.stdout

def demo_cmd():
    if os.path.exists(os.path.join(out, "demo_test.go")):
        shutil.copy(os.path.join(out, "demo_test.go"), os.path.join(wt, "zz_seeded_demo_test.go"))
        demo_src = open(os.path.join(out, "demo_test.go")).read()
        tags = "-tags verif " if ("Verif" in demo_src or any(l.startswith("//go:build") and "verif" in l for l in demo_src.splitlines()[:10])) else ""
        return "go test " + tags + "-count=1 -run 'TestSeeded' . 2>&1 | tail -15"
    return None

report = {"name": name, "properties": props}
rc, o = sh("git status --porcelain | grep -v '^?? OUT' | grep -v zz_seeded", wt)
OUTNAME = os.environ.get("SEED_OUT", "OUT")
if o.strip():
    print("worktree not clean:", o); sys.exit(2)
dc = demo_cmd()
if not dc:
    print("no demo_test.go; handle by hand"); sys.exit(2)
rc, o = sh(dc, wt)
report["demo_without_change"] = "PASS" if "ok " in o and "FAIL" not in o else "FAIL"
os.remove(os.path.join(wt, "zz_seeded_demo_test.go"))
rc, o2 = sh("git apply " + OUTNAME + "/patch.diff && go build ./... && go vet . && go test -count=1 . 2>&1 | tail -3", wt)
report["suite_with_change"] = "PASS" if rc == 0 and "ok " in o2 and "FAIL" not in o2 else "FAIL: " + o2[-500:]
demo_cmd()
rc, o3 = sh(dc, wt)
report["demo_with_change"] = "FAIL" if "FAIL" in o3 or "panic" in o3 else "PASS"
sh("git checkout -- . ; rm -f zz_seeded_demo_test.go", wt)
print(json.dumps(report, indent=1))
if not (report["demo_without_change"] == "PASS" and report["suite_with_change"] == "PASS" and report["demo_with_change"] == "FAIL"):
    print("NOT CONFIRMED"); print(o[-800:]); print(o3[-800:]); sys.exit(1)
os.makedirs(dst, exist_ok=True)
shutil.copy(os.path.join(out, "patch.diff"), dst)
shutil.copy(os.path.join(out, "demo_test.go"), os.path.join(dst, "demo_test.go.txt"))
meta = {}
try:
    meta = json.load(open(os.path.join(out, "meta.json")))
except Exception as e:
    meta = {"note": "agent meta.json unreadable: %s" % e}
meta["confirmed"] = report
# run the checks against it
rc, o = sh("git -C /repo status --porcelain")
if o.strip():
    print("/repo not clean:", o); sys.exit(2)
rc, o = sh("git -C /repo apply %s" % os.path.join(dst, "patch.diff"))
if rc != 0:
    print("patch does not apply to /repo (the worktree is at another commit?):", o); sys.exit(2)
results = {}
EVBAK = {p: open('/verif/evidence/%s.json' % p).read() for p in props if os.path.exists('/verif/evidence/%s.json' % p)}
try:
    for p in props:
        t0 = time.time()
        rc, o = sh("./check %s quick" % p, "/verif", timeout=1800)
        lines = [l for l in o.splitlines() if l.startswith("VIOLATION") or l.startswith("KNOWN") or " quick:" in l or l.startswith("  broken") or l.startswith("  finding")]
        results[p] = {"exit": rc, "wall_s": round(time.time() - t0, 1), "lines": [l[:300] for l in lines[:8]]}
finally:
    sh("git -C /repo checkout -- . && git -C /repo clean -fdq")
    for p, t in EVBAK.items():  # evidence must describe the unchanged tree, not the seeded change
        open('/verif/evidence/%s.json' % p, 'w').write(t)
meta["checks_run"] = results
meta["caught_by"] = [p for p, r in results.items() if r["exit"] == 1]
json.dump(meta, open(os.path.join(dst, "meta.json"), "w"), indent=1)
print(json.dumps(results, indent=1))
