#!/usr/bin/env python3
"""Re-run checks against a stored seeded change: tools/seed_recheck.py <name> <prop>..."""
import json, os, subprocess, sys, time
name, props = sys.argv[1], sys.argv[2:]
dst = os.path.join("/verif/seeded", name)
def sh(cmd, cwd=None, timeout=1800):
    p = subprocess.run(cmd, shell=True, cwd=cwd, stdout=subprocess.PIPE, stderr=subprocess.STDOUT, text=True, errors="replace", timeout=timeout)
    return p.returncode, p.stdout
rc, o = sh("git -C /repo status --porcelain")
if o.strip():
    print("/repo not clean:", o); sys.exit(2)
rc, o = sh("git -C /repo apply %s" % os.path.join(dst, "patch.diff"))
if rc != 0:
    print("patch does not apply:", o); sys.exit(2)
meta = json.load(open(os.path.join(dst, "meta.json")))
results = meta.get("checks_run", {})
EVBAK = {p: open('/verif/evidence/%s.json' % p).read() for p in props if os.path.exists('/verif/evidence/%s.json' % p)}
try:
    for p in props:
        t0 = time.time()
        rc, o = sh("./check %s quick" % p, "/verif")
        lines = [l for l in o.splitlines() if l.startswith("VIOLATION") or l.startswith("KNOWN") or " quick:" in l or l.startswith("  broken") or l.startswith("  finding")]
        results[p] = {"exit": rc, "wall_s": round(time.time() - t0, 1), "lines": [l[:300] for l in lines[:8]]}
        print(p, "exit", rc); print("\n".join(l[:260] for l in lines[:6]))
finally:
    sh("git -C /repo checkout -- . && git -C /repo clean -fdq")
    for p, t in EVBAK.items():  # evidence must describe the unchanged tree, not the seeded change
        open('/verif/evidence/%s.json' % p, 'w').write(t)
meta["checks_run"] = results
meta["caught_by"] = [p for p, r in results.items() if r["exit"] == 1]
json.dump(meta, open(os.path.join(dst, "meta.json"), "w"), indent=1)
