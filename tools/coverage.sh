#!/bin/sh
# Statement coverage of the LIBRARY by the harness (all correspondence streams + all scenario sets),
# by hand: what the dynamic side of the tie never executes. Prints the percentage and the blocks
# with a zero count. (Go's -cover with -coverpkg; GOCOVERDIR.)
set -e
OUT=${OUT:-/tmp/cov}
export GOFLAGS=-mod=mod GOPROXY=off GOSUMDB=off GOTOOLCHAIN=local
cd /verif/harness && cp /repo/go.sum . && go build -cover -coverpkg=github.com/charmbracelet/bubbletea,verif/harness -tags verif -o /verif/.work/bin/harness-cov .
rm -rf "$OUT" && mkdir -p "$OUT/data" "$OUT/w"
export GOCOVERDIR="$OUT/data"
cd /verif
for st in detect reader every fps render vt glue ptrace life cmdfns ltrace; do timeout 900 .work/bin/harness-cov corr $st 1 2000 "$OUT/w" >/dev/null 2>&1 || true; done
for sc in fold cmds seq filter term api modes exec final pty timing sigexec wide prints frames; do timeout 1800 .work/bin/harness-cov scen $sc 1 quick "$OUT/w/$sc.json" >/dev/null 2>&1 || true; done
go tool covdata percent -i="$OUT/data"
go tool covdata textfmt -i="$OUT/data" -o "$OUT/profile.txt"
echo "library blocks never executed:"
grep "charmbracelet/bubbletea/" "$OUT/profile.txt" | awk '$3==0 {print $1}' | sed 's#github.com/charmbracelet/bubbletea/##' | sort -t: -k1,1 -k2,2n
rm -f /verif/.work/bin/harness-cov
