#!/usr/bin/env python3
"""Re-run the checks of every stored seeded change (tools/seed_recheck.py) and summarise:
tools/recheck_all.py [name-prefix]   -> seeded/SUMMARY.json, one line per change."""
import json, os, subprocess, sys
pref = sys.argv[1] if len(sys.argv) > 1 else ""
out = {}
for name in sorted(os.listdir("/verif/seeded")):
    d = os.path.join("/verif/seeded", name)
    if not os.path.isdir(d) or not name.startswith(pref):
        continue
    meta = json.load(open(os.path.join(d, "meta.json")))
    props = meta.get("confirmed", {}).get("properties") or [meta.get("property")]
    main = name.split("-")[0]
    if main not in props:
        props = [main] + props
    p = subprocess.run(["python3", "/verif/tools/seed_recheck.py", name] + props[:1], stdout=subprocess.PIPE, stderr=subprocess.STDOUT, text=True)
    if p.returncode == 2:
        out[name] = {"property": props[0], "exit": None, "concrete_input": False, "note": "patch does not apply to the current tree: " + p.stdout.strip()[-160:]}
        print(name, props[0], "DOES-NOT-APPLY", flush=True)
        continue
    meta = json.load(open(os.path.join(d, "meta.json")))
    r = meta.get("checks_run", {}).get(props[0], {})
    lines = r.get("lines", [])
    concrete = any(l.startswith("VIOLATION") and "no-failing-input-found" not in l for l in lines)
    out[name] = {"property": props[0], "exit": r.get("exit"), "concrete_input": concrete}
    print(name, props[0], "exit", r.get("exit"), "concrete" if concrete else "NO-CONCRETE", flush=True)
json.dump(out, open("/verif/seeded/SUMMARY.json", "w"), indent=1)
print("do not apply any more:", [n for n, r in out.items() if r["exit"] is None])
missed = [n for n, r in out.items() if r["exit"] not in (1, None)]
print("MISSED:", missed)
print("no concrete input:", [n for n, r in out.items() if r["exit"] == 1 and not r["concrete_input"]])
