#!/usr/bin/env python3
"""Run every check against a BEHAVIOUR-PRESERVING change (a false-alarm probe).

  tools/benign_eval.py <worktree-with-OUTB> <name>

Stores /verif/benign/<name>/{patch.diff,meta.json}: which checks alarmed and how
(a concrete input would be a wrong oracle; `no-failing-input-found` is a broken
syntactic tie, reported as the brief prescribes)."""
import json, os, shutil, subprocess, sys, time
wt, name = sys.argv[1], sys.argv[2]
src = os.path.join(wt, "OUTB")
dst = os.path.join("/verif/benign", name)
os.makedirs(dst, exist_ok=True)
shutil.copy(os.path.join(src, "patch.diff"), dst)
def sh(cmd, cwd=None, timeout=1800):
    p = subprocess.run(cmd, shell=True, cwd=cwd, stdout=subprocess.PIPE, stderr=subprocess.STDOUT, text=True, errors="replace", timeout=timeout)
    return p.returncode, p.stdout
try:
    meta = json.load(open(os.path.join(src, "meta.json")))
except Exception as e:
    meta = {"note": "agent meta unreadable: %s" % e}
rc, o = sh("git -C /repo status --porcelain")
if o.strip():
    print("/repo not clean"); sys.exit(2)
rc, o = sh("git -C /repo apply %s" % os.path.join(dst, "patch.diff"))
if rc != 0:
    print("patch does not apply", o); sys.exit(2)
props = ["C%02d" % i for i in range(1, 21)]
ev = {p: open("/verif/evidence/%s.json" % p).read() for p in props if os.path.exists("/verif/evidence/%s.json" % p)}
res = {}
try:
    rc, o = sh("go build ./... && go test -count=1 . 2>&1 | tail -1", "/repo")
    meta["suite_with_change"] = o.strip()[-200:]
    for p in props:
        t0 = time.time()
        rc, o = sh("./check %s quick" % p, "/verif")
        lines = [l[:260] for l in o.splitlines() if l.startswith("VIOLATION") or l.startswith("  broken") or l.startswith("  finding")]
        res[p] = {"exit": rc, "lines": lines[:5], "wall_s": round(time.time() - t0, 1)}
        print(p, rc, "; ".join(lines[:2])[:200])
finally:
    sh("git -C /repo checkout -- . && git -C /repo clean -fdq")
    for p, t in ev.items():
        open("/verif/evidence/%s.json" % p, "w").write(t)
meta["checks"] = res
meta["alarms"] = [p for p, r in res.items() if r["exit"] != 0]
meta["alarms_with_concrete_input"] = [p for p, r in res.items() if r["exit"] != 0 and not any("no-failing-input-found" in l for l in r["lines"])]
json.dump(meta, open(os.path.join(dst, "meta.json"), "w"), indent=1)
print("ALARMS:", meta["alarms"], "CONCRETE:", meta["alarms_with_concrete_input"])
