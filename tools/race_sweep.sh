#!/bin/sh
# Run every scenario set of the harness under Go's race detector (by hand; not a registered check:
# the detector reports what one schedule happened to show, so an allow-list would be a source of
# false alarms on the unchanged tree). Reports land in $OUT (default /tmp/race); summary on stdout.
# Known on the pinned tree (DESIGN.md §7): cancelreader Close vs. its own wait() after a Kill (the
# kill path does not wait for the read loop), initInput re-assigning ttyInput/ttyOutput after an Exec
# while the resize listener reads ttyOutput (same value), Wait between two Runs of one Program.
set -e
OUT=${OUT:-/tmp/race}
export GOFLAGS=-mod=mod GOPROXY=off GOSUMDB=off GOTOOLCHAIN=local
cd /verif/harness && cp /repo/go.sum . && go build -race -tags verif -o /verif/.work/bin/harness-race .
rm -rf "$OUT" && mkdir -p "$OUT"
cd /verif
for sc in fold cmds seq filter term api modes exec final pty timing sigexec wide prints frames; do
  GORACE="halt_on_error=0 log_path=$OUT/$sc" timeout 1800 .work/bin/harness-race scen $sc ${VERIF_SEED:-1} quick "$OUT/$sc.json" >"$OUT/$sc.out" 2>&1 || true
done
echo "library frames in race reports:"
grep -h -A2 "^\(Write\|Read\|Previous write\|Previous read\) at" "$OUT"/*.[0-9]* 2>/dev/null | grep "^  [a-z]" | sort | uniq -c | sort -rn
rm -f /verif/.work/bin/harness-race
