#!/usr/bin/env python3
"""Write the prompts of one round of seeded changes: tools/mkprompts.py <round-letter> <out-dir-name> <theme-file>
 -> /tmp/mut/prompt<letter>_Cxx.txt for every property. The prompt contains ONLY the text of the property (from
 properties.jsonl), the rules of the exercise, the theme of the round and one-line summaries of the changes earlier
 sub-agents produced for the same property (so that a new mechanism is chosen) - nothing about the verification machinery."""
import json, os, sys
letter, outname, themefile = sys.argv[1], sys.argv[2], sys.argv[3]
theme = open(themefile).read().strip()
NEEDS = json.load(open('/verif/tools/prompt_needs.json'))
def needs_line(pid):
    # the "must need something specific" sentence, per property
    return NEEDS.get(pid, '- It must NOT be something ordinary use would expose at once. It must need something specific to manifest.')
for l in open('/verif/properties.jsonl'):
    p = json.loads(l)
    pid = p['id']
    mech = '; '.join('%s [%s]' % (m['name'], m['where']) for m in p['anchors'].get('mechanism', []))
    earlier = []
    for name in sorted(os.listdir('/verif/seeded')):
        if name.startswith(pid + '-'):
            try:
                m = json.load(open('/verif/seeded/%s/meta.json' % name))
                earlier.append('(%s) %s' % (name, m.get('summary', '')[:160]))
            except Exception:
                pass
    wt = '/tmp/mut/%s' % pid
    txt = f"""You are helping to evaluate a verification tool for the Go library charmbracelet/bubbletea (a TUI framework). Your job: produce ONE realistic change to the library's source code that BREAKS the property quoted below, while the library still compiles and its existing test suite still passes, plus a demonstration that fails with the change and passes without it.

Your workspace is the git worktree {wt} (a checkout of the library at its current commit). Work ONLY inside that directory. Never use `git stash` (the stash is shared between worktrees and other people work in sibling worktrees): to go back to the clean tree use `git diff > OUTDIR_TMP.patch && git checkout -- .` and `git apply` to return. Do not read or touch /repo, /verif or anything else outside your workspace (other than the Go toolchain and module cache). The sandbox has no network: run go offline exactly as `go build ./... && go vet . && go test -count=1 .` inside the workspace (never set GOFLAGS=-mod=mod there). Files named verif_export.go / verif_off.go (build tag `verif`) are test hooks; leave them alone, but your change must also compile with `go build -tags verif .`.

THE PROPERTY ({pid}: {p['title']})
Statement: {p['statement']}
Quantified: {p['quantifier']['text']}
Where the mechanism lives: {mech}

WHAT KIND OF CHANGE
- Something a maintainer could plausibly commit by accident: a refactor, an "optimisation", a "simplification", a well-meant bug fix, a reordering, a changed guard, a cached value, an off-by-one in a boundary. It should look reasonable in review; do not write comments that announce the bug.
{needs_line(pid)}
- This is round {letter}. {theme} Use a mechanism different from the earlier changes: {' '.join(earlier)}
- The change must compile, `go vet .` must be clean, and the whole existing suite (`go test -count=1 .`) must pass with the change applied (run it 3 times to make sure it is not flaky).
- Keep it small (a few lines to a few dozen), in the library's non-test .go files only. Do not modify tests, verif_export.go, verif_off.go, go.mod or examples.

DEMONSTRATION
Write a Go test file `demo_test.go` (package tea, test function names starting with `TestSeeded{pid}`) that, when copied into the workspace's root directory, FAILS with your change and PASSES without it, deterministically (use pause points such as callbacks and channels rather than sleeps wherever you can; give any wait a generous timeout so that it never fails on the unchanged code; the test must finish within 60 s in both cases and must not hang: use watchdog timeouts and t.Fatal). The demonstration must show a violation of the PROPERTY as stated (not merely some difference in behaviour).

DELIVERABLES, in the directory {wt}/{outname} (create it):
- patch.diff : `git diff` of your change against the clean tree (must apply with `git apply` to the clean tree)
- demo_test.go : the demonstration
- meta.json : an object with the keys "property" ("{pid}"), "summary" (what was changed, 2-3 sentences), "needs" (what is needed for the violation to manifest), "files_changed" (list), "how_verified" (the commands you ran and what you saw, with and without the change)
Finally leave the worktree CLEAN (git checkout -- . ; remove your copy of the demo from the root directory) so that only {outname}/ is untracked. Verify yourself, before finishing, in this order: clean tree + demo -> PASS; apply patch -> build, vet, full suite PASS; patched tree + demo -> FAIL; restore. Report briefly what you did.
"""
    open('/tmp/mut/prompt%s_%s.txt' % (letter, pid), 'w').write(txt)
print('ok')
